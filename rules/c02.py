"""C02 - every emitted JavaScript artefact is a syntactically valid program (structural half)."""
import json, os, re
import sir
import emit
import prectables as pt

RULE = ("C02.balance: on every control-flow path of every emitter the written text is bracket-balanced and has no empty argument (`,,` / `(,` inside parentheses); local string buffers are tracked separately and inlined where pasted (lib/dyck.py). "
        "C02.holes: every hole of every write!/format! in the emitter modules is typed through MIR and classified by type and "
        "producer: generated identifier (JsIdent), integer/bool, gen_lit_str()/gen_lit_float() result, string literal(s), a buffer "
        "produced by analysed emission, user JavaScript by contract (script bodies, extra runtime string, runtime constants), or a "
        "parser-validated identifier name (fields only ever filled from try_parse_field_name, whose alphabet is read from the source "
        "and checked to be a subset of JS IdentifierName); anything else is a violation, and so is any non-literal hole inside a "
        "quoted JS string. C02.ident: the language of generated identifiers (tables and offset read from the source) does not contain "
        "a reserved word, a strict-mode reserved word, undefined/NaN/Infinity/eval/arguments, a one-letter runtime name A-Z, nor a free "
        "identifier of the emitter's own fragments - decided by per-word membership for names of any length. C02.float: see C03.literal. "
        "C02.sep: stat() is the two-state separator automaton, need_stat_sep is written only inside the writer types, child blocks start "
        "from `false`, scopes borrowing the top writer save and restore the flag.")
EXPLANATION = ("What may be pasted into generated code is decided per hole from resolved types and producers, for all templates at "
               "once; the identifier generator's language is compared with the ECMA reserved-word list exactly. The emitted programs "
               "are never parsed or run.")
ASSUMPTIONS = ["inline <wxs> bodies, registered scripts and the extra runtime string are valid JavaScript (the property conditions on it)",
               "refs/js_reserved.json transcribes ECMA-262 reserved words", "bracket/statement-level grammar beyond holes, identifiers and separators is covered by C02.balance (see DESIGN.md) or not decided"]

SAFE_INT = re.compile(r"^(usize|u8|u16|u32|u64|u128|i8|i16|i32|i64|i128|isize|bool)$")
STRINGY = re.compile(r"^(std::string::String|str|compact_str::CompactString|std::borrow::Cow<str>|CompactString|String)$")
IDENT_TY = re.compile(r"(^|::)JsIdent$")
SANITISERS = {"gen_lit_str": "string literal (gen_lit_str)", "gen_lit_float": "float literal (gen_lit_float)"}
LOOK_THROUGH = {"to_string", "as_str", "clone", "into", "to_owned", "as_ref", "deref", "unwrap_or_default", "borrow", "as_deref"}
USER_JS_FIELDS = {"content", "script", "extra_runtime_string"}
RUNTIME_CONSTS = {"WXS_RUNTIME", "RUNTIME_ITEMS", "EXTRA_RUNTIME_ITEMS", "WXS_RUNTIME_ITEMS"}
# (enum-or-struct variant, field) whose value is only ever produced by the expression parser's identifier scanner
VALIDATED_FIELDS = {("DataField", "name"), ("StaticMember", "field_name"), ("Named", "name")}


class Cls:
    def __init__(self, kind, why):
        self.kind = kind  # safe | code | userjs | identname | unsafe
        self.why = why

    def ok(self):
        return self.kind != "unsafe"


def join(cs):
    bad = [c for c in cs if not c.ok()]
    if bad:
        return bad[0]
    if not cs:
        return Cls("unsafe", "no value")
    kinds = sorted(set(c.kind for c in cs))
    return Cls(kinds[0] if len(kinds) == 1 else "safe", " | ".join(sorted(set(c.why for c in cs)))[:200])


class FnScope:
    """lexical binding lookup inside one original-view function (closures included)."""

    def __init__(self, fn, all_fns):
        self.fn = fn
        self.all_fns = all_fns
        self.pm = sir.parent_map(fn)

    def resolve(self, name, at):
        """innermost binding of `name` visible at node `at` -> descriptor tuple or None"""
        cur = at
        while True:
            par = self.pm.get(id(cur))
            if par is None:
                break
            k = par.get("k")
            if k == "arm" and (par.get("body") is cur or par.get("guard") is cur):
                for nm, path in sir.pat_bindings(par["pat"]):
                    if nm == name:
                        m = self.pm.get(id(par))
                        return ("match", m["e"] if m else None, path, par)
            elif k == "if" and par.get("then") is cur and par["cond"].get("k") == "let":
                for nm, path in sir.pat_bindings(par["cond"]["pat"]):
                    if nm == name:
                        return ("match", par["cond"]["e"], path, par)
            elif k == "while" and par.get("body") is cur and par["cond"].get("k") == "let":
                for nm, path in sir.pat_bindings(par["cond"]["pat"]):
                    if nm == name:
                        return ("match", par["cond"]["e"], path, par)
            elif k == "closure" and par.get("body") is cur:
                for i, cp in enumerate(par["params"]):
                    for nm, path in sir.pat_bindings(cp):
                        if nm == name:
                            return ("closure", par, i, cp)
            elif k == "for" and par.get("body") is cur:
                for nm, path in sir.pat_bindings(par["pat"]):
                    if nm == name:
                        return ("for", par["e"], path, par)
            elif k == "block":
                stmts = par["stmts"]
                idx = None
                for i, st in enumerate(stmts):
                    if st is cur:
                        idx = i
                        break
                if idx is not None:
                    for st in reversed(stmts[:idx]):
                        if st.get("k") == "local":
                            for nm, path in sir.pat_bindings(st["pat"]):
                                if nm == name:
                                    return ("let", st.get("init"), path, st)
                        elif st.get("k") == "item" and st["item"].get("k") in ("const", "static") and st["item"].get("name") == name:
                            return ("const", st["item"].get("e"), [], st)
            elif k == "local" and par.get("else") is cur:
                pass
            cur = par
        for p in self.fn.get("params", []):
            pat = p.get("pat") or {}
            if pat.get("k") == "p_ident" and pat["name"] == name:
                return ("param", p.get("ty"), [], self.fn)
        return None


def classify(e, scope, depth=0, seen=None):
    seen = seen or set()
    if depth > 14:
        return Cls("unsafe", "classification too deep")
    e0 = e
    e = sir.strip_ref(e)
    k = e.get("k")
    if k == "lit":
        if e.get("t") == "str":
            return Cls("safe", "string literal %r" % e["v"][:20])
        return Cls("safe", "literal")
    if k == "call":
        name = sir.call_name(e)
        if name in SANITISERS:
            return Cls("safe", SANITISERS[name])
        if name in ("Some", "Ok", "Box") and e["args"]:
            return join([classify(a, scope, depth + 1, seen) for a in e["args"]])
        if name in ("new", "from") and (sir.call_path(e) or "").startswith(("JsIdent", "String", "CompactString")) and e["args"]:
            return join([classify(a, scope, depth + 1, seen) for a in e["args"]])
        return classify_call_result(name, e, scope, depth, seen)
    if k == "mcall":
        m = e["m"]
        if m in LOOK_THROUGH:
            return classify(e["recv"], scope, depth + 1, seen)
        if m == "finish":
            return Cls("code", "buffer returned by a JS scope writer")
        if m in ("unwrap", "unwrap_or", "unwrap_or_else", "expect"):
            return classify(e["recv"], scope, depth + 1, seen)
        if m == "map" and e["args"] and e["args"][0].get("k") == "closure":
            # the elements are whatever the mapping closure returns
            clo = e["args"][0]
            b = clo["body"]
            tail = b
            while tail.get("k") == "block" and tail["stmts"] and tail["stmts"][-1].get("k") == "expr":
                tail = tail["stmts"][-1]["e"]
            params = [x for pp in clo["params"] for x, _p in sir.pat_bindings(pp)]
            if root_name(tail) in params:
                # the closure only reshapes its element (`|x| x.to_string()`): the elements are those of the receiver
                return classify(e["recv"], scope, depth + 1, seen)
            return classify_block(b, scope, depth, seen) if b.get("k") == "block" else classify(b, scope, depth + 1, seen)
        if m == "map" and e["args"] and e["args"][0].get("k") == "path":
            nm = e["args"][0]["segs"][-1]
            if nm in SANITISERS:
                return Cls("safe", SANITISERS[nm])
        if m in ("chain", "zip") and e["args"]:
            # the elements of both sequences
            return join([classify(e["recv"], scope, depth + 1, seen)] + [classify(a_, scope, depth + 1, seen) for a_ in e["args"]])
        if m in ("join", "collect", "map", "iter", "into_iter", "cloned", "copied", "rev"):
            return classify(e["recv"], scope, depth + 1, seen)
        return classify_call_result(m, e, scope, depth, seen)
    if k == "try":
        return classify(e["e"], scope, depth + 1, seen)
    if k == "if":
        cs = [classify_block(e["then"], scope, depth, seen)]
        if e.get("else") is not None:
            cs.append(classify(e["else"], scope, depth + 1, seen) if e["else"].get("k") != "block" else classify_block(e["else"], scope, depth, seen))
        return join(cs)
    if k == "block":
        return classify_block(e, scope, depth, seen)
    if k == "match":
        return join([classify(a["body"], scope, depth + 1, seen) for a in e["arms"]])
    if k == "mac":
        if e["name"] == "format" and sir.format_args_of(e):
            return Cls("code", "format! of analysed fragments")
        return Cls("unsafe", "macro %s!" % e["name"])
    if k == "field":
        if e["name"] in USER_JS_FIELDS:
            return Cls("userjs", "user JavaScript by contract (%s)" % e["name"])
        if e["name"] == "value" and sir.expr_str(e["base"]) == "self":
            return Cls("code", "expression text produced by the expression generator")
        if e["name"] == "name":
            # `.name` of a JsIdent
            b = sir.strip_ref(e["base"])
            if b.get("k") == "path" and len(b["segs"]) == 1:
                r = scope.resolve(b["s"], e)
                if r and r[0] == "let" and r[1] is not None and r[1].get("k") == "struct" and r[1]["path"].endswith("JsIdent"):
                    return Cls("safe", "name of a generated identifier")
                if r and r[0] == "let" and r[1] is not None:
                    ini = r[1]
                    while ini.get("k") == "try" or (ini.get("k") == "mcall" and ini["m"] in LOOK_THROUGH):
                        ini = ini["e"] if ini.get("k") == "try" else ini["recv"]
                    if ini.get("k") in ("call", "mcall"):
                        cn = sir.call_name(ini) if ini.get("k") == "call" else ini["m"]
                        cands = [f for f in scope.all_fns if f["name"] == cn]
                        if cands and all(f.get("ret") and "JsIdent" in f["ret"] for f in cands):
                            return Cls("safe", "name of a generated identifier (returned by %s())" % cn)
                if r and r[0] == "param" and "JsIdent" in (r[1] or ""):
                    return Cls("safe", "name of a generated identifier")
            if sir.expr_str(b) == "self" and scope.fn.get("_impl") == "JsIdent":
                return Cls("safe", "name of a generated identifier")
        if e.get("name") in ("top_declares", "sub_strs") and sir.expr_str(e["base"]) == "self" and (scope.fn.get("_impl") or "").startswith("JsTopScopeWriter"):
            return Cls("code", "statement buffers of the top scope writer")
        return Cls("unsafe", "field `%s` of the template AST / group state reaches generated code unescaped" % sir.expr_str(e))
    if k == "index":
        return classify(e["base"], scope, depth + 1, seen)
    if k == "path":
        if len(e["segs"]) > 1:
            if e["segs"][-1] in RUNTIME_CONSTS:
                return Cls("userjs", "runtime constant %s" % e["segs"][-1])
            return Cls("unsafe", "path %s" % e["s"])
        name = e["s"]
        if name in RUNTIME_CONSTS:
            return Cls("userjs", "runtime constant %s" % name)
        if name == "None":
            return Cls("safe", "None")
        r = scope.resolve(name, e)
        if r is None and sir.const_text(e) is not None:
            return Cls("safe", "text constant %s = %r" % (name, sir.const_text(e)[:20]))
        if r is None:
            return Cls("unsafe", "unbound name `%s`" % name)
        key = (name, id(r[3]))
        if key in seen:
            return Cls("code", "buffer under construction")
        return classify_binding(name, r, scope, depth, seen | {key})
    return Cls("unsafe", "expression `%s`" % sir.expr_str(e)[:60])


def classify_block(b, scope, depth, seen):
    stmts = b.get("stmts", [])
    if not stmts:
        return Cls("unsafe", "empty block")
    last = stmts[-1]
    if last.get("k") == "expr" and not last.get("semi"):
        return classify(last["e"], scope, depth + 1, seen)
    return Cls("unsafe", "block without value")


def fn_scope(fn, scope):
    cache = scope.all_fns_scopes
    if id(fn) not in cache:
        s = FnScope(fn, scope.all_fns)
        s.all_fns_scopes = cache
        cache[id(fn)] = s
    return cache[id(fn)]


def classify_call_result(name, e, scope, depth, seen):
    # call of a function-typed parameter / local closure
    if e.get("k") == "call" and e["f"].get("k") == "path" and len(e["f"]["segs"]) == 1:
        r = scope.resolve(name, e)
        if r and r[0] == "param":
            ty = r[1] or ""
            if "JsIdent" in ty:
                return Cls("safe", "generated identifier(s) returned by a callback typed `%s`" % ty[:50])
        if r and r[0] == "let" and r[1] is not None and r[1].get("k") == "closure":
            # a local closure that picks between fragments (`|flag| if flag { "!0" } else { "!1" }`): what its body yields;
            # anything derived from its parameters stays unbound and is therefore not accepted
            cb_ = r[1]["body"]
            return classify_block(cb_, scope, depth, seen) if cb_.get("k") == "block" else classify(cb_, scope, depth + 1, seen)
    cands = [f for f in scope.all_fns if f["name"] == name]
    if len(cands) > 1:
        nargs = len(e.get("args", []))
        exact = [f for f in cands if len([p for p in f.get("params", []) if not p.get("self")]) == nargs]
        cands = exact or cands
    if cands and all("'static str" in (f.get("ret") or "").replace("& ", "&") for f in cands):
        return Cls("safe", "&'static str returned by %s()" % name)
    if cands and all(f.get("ret") and "JsIdent" in f["ret"] for f in cands):
        return Cls("safe", "generated identifier returned by %s()" % name)
    if cands and all(f.get("ret") and "String" in f["ret"] for f in cands):
        if name == "get_var_name":
            return Cls("safe", "generated identifier text")
        return Cls("code", "string built by emitter function %s()" % name)
    return Cls("unsafe", "result of %s()" % name)


def classify_binding(name, r, scope, depth, seen):
    how = r[0]
    if how == "param":
        ty = (r[1] or "").replace("& ", "&")
        fn = r[3]
        if "JsIdent" in ty:
            return Cls("safe", "generated identifier")
        if "'static str" in ty:
            return Cls("safe", "&'static str parameter")
        if re.search(r"\b(usize|u32|i64|bool)\b", ty):
            return Cls("safe", "integer")
        if "str" in ty or "String" in ty:
            if depth > 8:
                return Cls("unsafe", "parameter chain too deep")
            params = fn.get("params", [])
            pos = [i for i, p in enumerate(params) if (p.get("pat") or {}).get("name") == name][0]
            has_self = any(p.get("self") for p in params)
            args = []
            for g in scope.all_fns:
                gs = fn_scope(g, scope)
                for n in sir.walk(g["body"], into_items=True):
                    if n.get("k") in ("call", "mcall") and sir.call_name(n) == fn["name"]:
                        a = n["args"]
                        p = pos - (1 if has_self and n.get("k") == "mcall" else 0)
                        if n.get("k") == "call" and has_self and len(a) == len(params):
                            p = pos
                        if 0 <= p < len(a):
                            args.append((a[p], gs))
                    elif n.get("k") == "mac" and n.get("args"):
                        # locally defined macro that forwards literals to this function (declare_shortcut!)
                        for mdef in sir.walk(g["body"], into_items=True):
                            if mdef.get("k") == "mac" and mdef["name"] == "macro_rules" and mdef.get("def") == n["name"] and fn["name"] in (mdef.get("raw") or ""):
                                for a in n["args"]:
                                    args.append((a, gs))
            if not args:
                return Cls("unsafe", "&str parameter `%s` of %s() has no visible call site" % (name, fn["name"]))
            return join([classify(a, gs, depth + 1, set()) for a, gs in args])
        return Cls("unsafe", "parameter `%s: %s`" % (name, ty))
    if how in ("let", "const"):
        init, path = r[1], r[2]
        if init is None:
            return Cls("unsafe", "uninitialised `%s`" % name)
        if path:
            return classify_path_binding(init, path, scope, depth, seen)
        s = sir.expr_str(init)
        if re.search(r"String::(new|with_capacity)", s):
            return Cls("code", "local buffer filled by analysed emission")
        st = r[3]
        if st.get("k") == "local" and st["pat"].get("k") == "p_ident" and st["pat"].get("mut"):
            # a mutable container / option: everything stored into it (directly or through an alias) counts
            stored = mutations_of(name, st, scope)
            cs = [classify(init, scope, depth + 1, seen)] if init.get("k") not in ("mac",) and sir.expr_str(init) not in ("None",) and not re.search(r"(Vec|HashMap|BTreeMap)::(new|with_capacity)", s) else []
            for a in stored:
                cs.append(classify(a, scope, depth + 1, seen))
            if not cs:
                return Cls("safe", "never filled")
            return join(cs)
        return classify(init, scope, depth + 1, seen)
    if how == "for":
        it, path = r[1], r[2]
        it0 = sir.strip_ref(it)
        while it0.get("k") == "mcall" and it0["m"] in ("iter", "into_iter", "copied", "cloned") and not it0["args"]:
            it0 = sir.strip_ref(it0["recv"])
        if it0.get("k") == "array" and it0.get("elems") and not path:
            # `for table in ["G", "R"]`: the loop variable is one of the listed expressions
            return join([classify(x_, scope, depth + 1, seen) for x_ in it0["elems"]])
        return classify_path_binding(it, path, scope, depth, seen, loop=True)
    if how == "match":
        return classify_path_binding(r[1], r[2], scope, depth, seen)
    if how == "closure":
        clo, i = r[1], r[2]
        # the higher-order function this closure is passed to decides what the parameter is
        par = scope.pm.get(id(clo))
        if par is not None and par.get("k") == "mcall" and par["m"] in ("map", "for_each", "try_for_each", "filter", "filter_map", "flat_map", "any", "all", "find", "position", "inspect") and len(clo["params"]) == 1:
            # an iterator adaptor: the parameter is an element of whatever the receiver chain iterates over - a `for` loop in disguise
            path = [pth for nm, pth in sir.pat_bindings(clo["params"][0]) if nm == name]
            srcs = iter_sources(par["recv"], scope)
            if srcs is not None and path:
                cs = [classify_path_binding(src, path[0], scope, depth, seen, loop=True) for src in srcs]
                return join(cs) if cs else Cls("safe", "iterates over nothing")
        if par is not None and par.get("k") in ("call", "mcall"):
            j = [x for x, a in enumerate(par["args"]) if a is clo]
            callee = sir.call_name(par)
            cands = [f for f in scope.all_fns if f["name"] == callee]
            out = []
            for f in cands:
                params = [p for p in f.get("params", []) if not p.get("self")]
                if par.get("k") == "call" and any(p.get("self") for p in f.get("params", [])) and len(par["args"]) == len(f["params"]):
                    params = f["params"]
                if not j or j[0] >= len(params):
                    continue
                fname = (params[j[0]].get("pat") or {}).get("name")
                fty = params[j[0]].get("ty") or ""
                fs = fn_scope(f, scope)
                for n in sir.walk(f["body"], into_items=True):
                    if n.get("k") == "call" and n["f"].get("k") == "path" and n["f"]["s"] == fname and i < len(n["args"]):
                        out.append(classify(n["args"][i], fs, depth + 1, set()))
            if out:
                return join(out)
        return Cls("unsafe", "closure parameter `%s` whose caller could not be resolved" % name)
    return Cls("unsafe", "binding kind %s" % how)


def root_name(e):
    e = sir.strip_ref(e)
    while isinstance(e, dict) and e.get("k") in ("mcall", "field", "index", "try", "unary", "ref"):
        e = e.get("recv") or e.get("base") or e.get("e")
        e = sir.strip_ref(e) if isinstance(e, dict) else e
    if isinstance(e, dict) and e.get("k") == "path" and len(e["segs"]) == 1:
        return e["s"]
    return None


def mutations_of(name, decl, scope):
    """expressions stored into the mutable local `name` (declared by `decl`) or into aliases of it"""
    names = {name}
    out = []
    nodes = list(sir.walk(scope.fn["body"], into_items=False))
    for _round in range(3):
        for n in nodes:
            if n.get("k") == "local" and n is not decl and n.get("init") is not None and root_name(n["init"]) in names:
                for nm, _p in sir.pat_bindings(n["pat"]):
                    names.add(nm)
    for n in nodes:
        if n.get("k") == "assign" and root_name(n["l"]) in names:
            out.append(n["r"])
        elif n.get("k") == "mcall" and n["m"] in ("push", "push_str", "insert", "extend", "push_back") and root_name(n["recv"]) in names:
            for a in n["args"]:
                if a.get("k") == "tuple":
                    out.extend(a["elems"])
                else:
                    out.append(a)
    # drop trivial container initialisers
    return [a for a in out if sir.expr_str(a) not in ("None",) and not (a.get("k") == "call" and sir.call_name(a) == "Some" and a["args"] and a["args"][0].get("k") == "mac")]


def iter_sources(e, scope, depth=0):
    """the collections an iterator expression draws its elements from (through `iter`/`chain`/`rev`/.., locals and if/else),
    or None when it is not readable"""
    e = sir.strip_ref(e)
    if depth > 6:
        return None
    k = e.get("k")
    if k == "mcall":
        if e["m"] in ("iter", "into_iter", "iter_mut", "rev", "skip", "take", "peekable", "cloned", "copied", "by_ref", "as_slice", "as_ref") :
            return iter_sources(e["recv"], scope, depth + 1)
        if e["m"] == "chain" and len(e["args"]) == 1:
            a, b = iter_sources(e["recv"], scope, depth + 1), iter_sources(e["args"][0], scope, depth + 1)
            return None if a is None or b is None else a + b
        return [e]
    if k == "array" and not e["elems"]:
        return []
    if k == "if" and e.get("else") is not None:
        outs = []
        for br in (e["then"], e["else"]):
            t = br
            while t.get("k") == "block" and len(t["stmts"]) == 1 and t["stmts"][0].get("k") == "expr" and not t["stmts"][0].get("semi"):
                t = t["stmts"][0]["e"]
            r_ = iter_sources(t, scope, depth + 1)
            if r_ is None:
                return None
            outs += r_
        return outs
    if k == "path" and len(e["segs"]) == 1 and not e["segs"][0].isupper():
        r = scope.resolve(e["segs"][0], e)
        if r and r[0] == "let" and r[1] is not None and not r[2]:
            return iter_sources(r[1], scope, depth + 1)
    return [e]


def classify_path_binding(src, path, scope, depth, seen, loop=False):
    variant = [p[1:] for p in path if p.startswith("@")]
    field = [p for p in path if not p.startswith("@")]
    s = sir.expr_str(src) if src is not None else ""
    if field and field[-1] in ("top_declares", "sub_strs") and variant in ([], ["Self"]) and s == "self":
        return Cls("code", "statement buffers of the top scope writer (destructured from self)")
    if variant and field:
        vf = (variant[-1], field[-1])
        if vf in VALIDATED_FIELDS:
            return Cls("identname", "parser-validated identifier (%s.%s)" % vf)
        if vf == ("Ident", "0") and "PathSlice" in "PathSlice":
            return Cls("identname", "copy of a parser-validated identifier (PathSlice::Ident)")
        if vf == ("Inline", "content"):
            return Cls("userjs", "inline <wxs> body (valid JavaScript by contract)")
        if vf[0] == "Some" and len(variant) == 1:
            # Option unwrapped by pattern: classify the scrutinee itself
            return classify(src, scope, depth + 1, seen) if src is not None else Cls("unsafe", "?")
    if loop and field == ["0"] and src is not None:
        recv = src
        while recv.get("k") == "mcall":
            recv = recv["recv"]
        recv = sir.strip_ref(recv)
        if recv.get("k") == "path" and len(recv["segs"]) == 1:
            r = scope.resolve(recv["s"], src)
            if r and r[0] == "match" and "@CombineObj" in r[2]:
                return Cls("identname", "object-literal key copied from ObjectFieldKind::Named.name (PathSlice::CombineObj)")
    if loop or not variant:
        for c in RUNTIME_CONSTS:
            if c in s:
                return Cls("userjs", "runtime constant %s" % c)
        if re.search(r"\bscripts\b", s) and field and field[-1] == "1":
            return Cls("userjs", "registered script body (valid JavaScript by contract)")
        if "top_declares" in s or "sub_strs" in s or (field and field[-1] in ("top_declares", "sub_strs")):
            return Cls("code", "statement buffers of the top scope writer")
    if not variant and not field and src is not None:
        return classify(src, scope, depth + 1, seen)
    return Cls("unsafe", "value bound from `%s` via %s" % (s[:40], "/".join(path)))


def quote_state(pieces):
    """for each hole index: is it inside a quoted JS string of the fragment?"""
    out = []
    q = None
    for p in pieces:
        if p[0] == "lit":
            t = p[1]
            i = 0
            while i < len(t):
                c = t[i]
                if q:
                    if c == "\\":
                        i += 1
                    elif c == q:
                        q = None
                else:
                    if c in "\"'`":
                        q = c
                i += 1
        else:
            out.append(q is not None)
    return out


def display_impl_class(orig, ty, all_fns, depth=0):
    """A hole whose type is a type of the crate with its own `Display` impl in the emitter files prints what that impl writes: the
    fragments of its `write!`s, whose holes are classified like any other hole (in the scope of `fmt`).  None if `ty` has no such impl."""
    if not ty or depth > 2:
        return None
    base = re.sub(r"<.*", "", ty).split("::")[-1]
    for f in orig["files"]:
        rel = f["path"].split("glass-easel-template-compiler/src/")[-1]
        if rel not in emit.EMITTER_FILES:
            continue
        for fn, is_test, impl_ty, trait in emit._fns_of_file(f):
            if is_test or not fn.get("body") or fn["name"] != "fmt" or not trait or not trait.endswith("Display"):
                continue
            if re.sub(r"<.*", "", str(impl_ty or "")).split("::")[-1] != base:
                continue
            fn["_impl"] = impl_ty
            sc = FnScope(fn, all_fns)
            sc.all_fns_scopes = {}
            cs = []
            n_w = 0
            for n in sir.walk(fn["body"], into_items=True):
                if n.get("k") == "mac" and n["name"] in emit.FMT_MACROS:
                    fa = sir.format_args_of(n, resolve_consts=False)
                    if not fa:
                        continue
                    n_w += 1
                    for pc in fa[0]:
                        if pc[0] == "hole":
                            cs.append(classify(pc[1], sc))
            if n_w == 0:
                return None
            bad = [c for c in cs if not c.ok()]
            if bad:
                return Cls("unsafe", "`Display` impl of %s writes %s" % (base, bad[0].why))
            return Cls("code", "`Display` impl of %s: %d write(s) of literal fragments and %d classified hole(s)" % (base, n_w, len(cs)))
    return None


def holes_rule(ctx):
    ob = ctx.ob
    obs = []
    orig = ctx._load("orig.json")
    sites = emit.collect_sites(orig)
    emit.attach_types(sites, ctx.mir)
    all_fns = []
    seen_fn = set()
    for s in sites:
        if id(s.fn) not in seen_fn:
            seen_fn.add(id(s.fn))
    # all emitter-module fns (for call-site lookups)
    for f in orig["files"]:
        rel = f["path"].split("glass-easel-template-compiler/src/")[-1]
        if rel in emit.EMITTER_FILES:
            for fn, is_test, impl_ty, trait in emit._fns_of_file(f):
                if not is_test and fn.get("body"):
                    fn["_impl"] = impl_ty
                    all_fns.append(fn)
    scopes = {}
    n_holes = 0
    untyped = 0
    for s in sites:
        dh = emit.distinct_holes(s)
        if not dh:
            continue
        sc = scopes.get(id(s.fn))
        if sc is None:
            sc = FnScope(s.fn, all_fns)
            sc.all_fns_scopes = scopes
            scopes[id(s.fn)] = sc
        types = s.hole_types or []
        qs = quote_state(s.pieces)
        # quote state per distinct hole: take the state of its first occurrence
        first_q = {}
        hi = 0
        for p in s.pieces:
            if p[0] == "hole":
                first_q.setdefault(id(p[1]), qs[hi])
                hi += 1
        fname = "%s%s" % ((s.fn.get("_impl") + "::") if s.fn.get("_impl") else "", s.fn["name"])
        # holes that name a text constant are compiled into the literal text: they have no run-time argument (and no MIR type)
        const_holes = [sir.const_text(h[1]) is not None for h in dh]
        if len(types) != len(dh) and len(types) == len(dh) - sum(const_holes):
            it_ = iter(types)
            types = [(None, None) if c_ else next(it_) for c_ in const_holes]
        for i, h in enumerate(dh):
            n_holes += 1
            arg = sir.expr_str(h[1])
            if const_holes[i]:
                obs.append(ob("C02.holes/%s/%s/%s" % (fname, re.sub(r"\s+", "", s.fmt)[:40], re.sub(r"\s+", "", arg)[:40]), True, s.where, "hole `%s` names the text constant %r" % (arg, sir.const_text(h[1])[:30])))
                continue
            ty = emit.norm_type(types[i][1]) if i < len(types) and len(types) == len(dh) and types[i][1] is not None else None
            how = types[i][0] if i < len(types) and len(types) == len(dh) else None
            key = "C02.holes/%s/%s/%s" % (fname, re.sub(r"\s+", "", s.fmt)[:40], re.sub(r"\s+", "", arg)[:40])
            if ty is None:
                untyped += 1
            inq = first_q.get(id(h[1]), False)
            if how == "debug":
                obs.append(ob(key, False, s.where, "hole `%s` is formatted with Rust's Debug inside generated code" % arg))
                continue
            if ty and IDENT_TY.search(ty):
                c = Cls("safe", "generated identifier (JsIdent)")
            elif ty and SAFE_INT.match(ty):
                c = Cls("safe", "integer/bool (%s)" % ty)
            elif ty == "f64" or ty == "f32":
                c = Cls("unsafe", "float displayed directly (see C02.float)")
            elif ty and "::" in ty and not STRINGY.match(ty) and display_impl_class(orig, ty, all_fns) is not None:
                c = display_impl_class(orig, ty, all_fns)
            else:
                c = classify(h[1], sc)
                if ty and not STRINGY.match(ty) and c.ok() and c.kind == "safe" and "literal" not in c.why and "identifier" not in c.why and "integer" not in c.why:
                    pass
            detail = "hole `%s` : %s in fragment %r -> %s" % (arg, ty or "untyped", s.fmt[:60], c.why)
            okh = c.ok()
            wit = None
            if inq and not (c.kind == "safe" and c.why.startswith("string literal")):
                okh = False
                detail += "; the hole sits inside a quoted JavaScript string of the fragment, where no escaping is applied"
                wit = 'add_tmpl("it\'s", "<wxs module=\\"m\\">...</wxs>") emits D(\'it\'s#m\', ...)'
            if not c.ok() and "slot_value_name" in arg:
                wit = "<a slot:a.1><b>{{a}}</b></a> emits X(V).a.1"
            obs.append(ob(key, okh, s.where, detail, witness=wit, sample={"fragment": s.fmt[:80], "hole": arg, "type": ty, "class": c.kind}))
    obs.append(ob("C02.holes/typed", untyped == 0, "proc_gen/*", "%d holes in %d emission sites; %d without a MIR type" % (n_holes, len(sites), untyped)))
    if n_holes < 120:
        obs.append(ob("C02.floor/holes", False, "proc_gen/*", "only %d holes analysed (floor 120)" % n_holes))
    return obs, sites


def validated_ident_rule(ctx):
    """the fields in VALIDATED_FIELDS are only constructed from try_parse_field_name results; its alphabet is JS-safe."""
    ob = ctx.ob
    tc = ctx.tc
    obs = []
    for (variant, field) in sorted(VALIDATED_FIELDS):
        sites = []
        for f in tc.fns:
            if not f.body or (f.trait and f.trait.split("::")[-1] in ("Clone", "Debug", "PartialEq")):
                continue
            for n in sir.walk(f.body):
                if n.get("k") == "struct" and n["segs"][-1] == variant and any(fl["name"] == field for fl in n["fields"]):
                    sites.append((f, n))
        bad = []
        for f, n in sites:
            src = [fl for fl in n["fields"] if fl["name"] == field][0]["e"]
            s = sir.expr_str(src)
            # origin: a name bound from try_parse_field_name(..) in the same function, or a clone of such
            names = [x["s"] for x in sir.walk(src) if x.get("k") == "path" and len(x["segs"]) == 1]
            ok = False
            for nm in names:
                for m in sir.walk(f.body):
                    if m.get("k") in ("local", "let") and any(b[0] == nm for b in sir.pat_bindings(m["pat"])):
                        init = m.get("init") if m.get("k") == "local" else m.get("e")
                        if init is not None and "try_parse_field_name" in sir.expr_str(init):
                            ok = True
            if not ok:
                bad.append("%s: %s" % (f.qual, s))
        obs.append(ob("C02.holes/validated/%s.%s" % (variant, field), bool(sites) and not bad, "parse/expr.rs",
                      "%d construction sites, all fed by try_parse_field_name" % len(sites) if not bad else "constructed from something else: %s" % bad))
    # alphabet
    for fname, first in (("is_ident_start_char", True), ("is_ident_char", False)):
        fs = [f for f in tc.fns if f.name == fname and "expr" in f.module]
        if len(fs) != 1:
            obs.append(ob("C02.holes/alphabet/%s" % fname, False, "parse/expr.rs", "%s not found" % fname))
            continue
        # the predicate is tabulated per character class by abstract interpretation (lib/absint.py): it may only accept
        # [A-Za-z_$] (and digits when it is not the first character)
        import absint as ai
        tab = ai.char_predicate_table(fs[0], idx=tc)
        if tab is None or any(v is None for _lo, _hi, v in tab):
            und = [("%x-%x" % (lo, hi)) for lo, hi, v in (tab or []) if v is None][:4]
            obs.append(ob("C02.holes/alphabet/%s" % fname, None, ctx.where(fs[0]), "the predicate is not made of comparisons with character constants and std ASCII predicates only (classes %s): its alphabet is not decided for this tree" % und))
            continue
        bad = []
        accepted = []
        for lo, hi, v in tab:
            if not v:
                continue
            accepted.append((lo, hi))
            for cp in (lo, hi):
                ch = chr(cp)
                if not (ch in "_$" or (ch.isascii() and (ch.isalpha() or (ch.isdigit() and not first)))):
                    bad.append("U+%04X" % cp if not ch.isprintable() or not ch.isascii() else ch)
        obs.append(ob("C02.holes/alphabet/%s" % fname, not bad and bool(accepted), ctx.where(fs[0]),
                      "accepts %d character classes (%s..), all inside JS IdentifierName%s" % (len(accepted), "".join(chr(lo) for lo, _h in accepted[:6]), "Start" if first else "Part") if not bad else "admits %s" % sorted(set(bad))[:8],
                      witness=None if not bad else "a field name containing that character is emitted unquoted into the generated JavaScript"))
    return obs


# ------------------------------------------------------------------ generated identifiers

def ident_rule(ctx, sites):
    ob = ctx.ob
    tc = ctx.tc
    obs = []

    def table(name):
        c = tc.const(name)
        if c is None or c["e"].get("k") != "array":
            return None
        return [x["v"] for x in c["e"]["elems"] if x.get("t") == "char"]
    start = table("VAR_NAME_START_CHARS")
    chars = table("VAR_NAME_CHARS")
    pres = tc.const("VAR_NAME_INDEX_PRESERVE")
    # the name generator is whichever function indexes both tables (it has been a free fn and an associated fn)
    gv = [f for f in tc.fns if f.body and {sir.expr_str(n["base"]) for n in sir.walk(f.body) if n.get("k") == "index"} >= {"VAR_NAME_START_CHARS", "VAR_NAME_CHARS"}]
    if not start or not chars or pres is None or len(gv) != 1:
        return [ob("C02.ident/anchor", False, "proc_gen/mod.rs", "identifier tables / name generator not found")]
    preserve = int(pres["e"]["v"])
    f = gv[0]
    where = ctx.where(f)
    # shape of the generator: first char START[id % len], then while id > 0 { CHARS[id % len]; id /= len }
    idxs = [n for n in sir.walk(f.body) if n.get("k") == "index"]
    shape_ok = len(idxs) == 2 and sir.expr_str(idxs[0]["base"]) == "VAR_NAME_START_CHARS" and sir.expr_str(idxs[1]["base"]) == "VAR_NAME_CHARS" \
        and "%" in sir.expr_str(idxs[0]["idx"]) and "%" in sir.expr_str(idxs[1]["idx"]) \
        and any(n.get("k") == "while" for n in sir.walk(f.body))
    if not shape_ok and len(idxs) == 2 and all("%" in sir.expr_str(i_["idx"]) for i_ in idxs) and not any(n.get("k") == "while" for n in sir.walk(f.body)):
        shape_ok = None   # both tables are indexed modulo their length, but the digit loop is written in a form this rule does not read
    obs.append(ob("C02.ident/shape", shape_ok, where, "name = START[id %% %d] . (CHARS[v %% %d])* with v = id / %d, least significant first" % (len(start), len(chars), len(start))))
    # every counter starts at the preserve offset (public idents); private idents are `$`-prefixed
    inits = []
    for g in tc.fns:
        if g.body and g.base == "JsBlockStat":
            for n in sir.walk(g.body):
                if n.get("k") == "struct" and n["path"].endswith("Self"):
                    for fl in n["fields"]:
                        if fl["name"] == "ident_id_inc":
                            inits.append(sir.expr_str(fl["e"]))
    obs.append(ob("C02.ident/offset", bool(inits) and all(i in ("VAR_NAME_INDEX_PRESERVE", "self.ident_id_inc") for i in inits), where,
                  "public identifier counters start at VAR_NAME_INDEX_PRESERVE=%d or copy the parent's: %s" % (preserve, inits)))
    # a writer created for a nested function continues the numbering of the function it is nested in (`align`): otherwise its
    # identifiers restart at `a` and shadow the enclosing loop / slot variables
    news, unaligned = 0, []
    for g in tc.fns:
        if not g.body or g.module[:2] != ["proc_gen", "tag"]:
            continue
        for blk in sir.walk(g.body):
            if blk.get("k") != "block":
                continue
            for i_, st_ in enumerate(blk["stmts"]):
                if st_.get("k") == "local" and st_["pat"].get("k") == "p_ident" and st_.get("init") is not None and st_["init"].get("k") == "call" and (sir.call_path(st_["init"]) or "").endswith("JsTopScopeWriter::new"):
                    news += 1
                    nm = st_["pat"]["name"]
                    aligned = any(x.get("k") == "mcall" and x["m"] == "align" and sir.expr_str(x["recv"]) == nm for later in blk["stmts"][i_ + 1:] for x in sir.walk(later))
                    if not aligned:
                        unaligned.append("%s (in %s)" % (nm, g.name))
    obs.append(ob("C02.ident/nested-align", not unaligned and news >= 2, "proc_gen/tag.rs", "%d nested writers, each aligned with the writer of the enclosing function" % news if not unaligned else "nested writer(s) not aligned: %s" % unaligned,
                  witness=None if not unaligned else "<x wx:for=..><y slot:v>{{item}}{{v}}</y></x>: the slot variable shadows the loop item"))
    priv = [g for g in tc.fns if g.name == "gen_private_ident" and g.body]
    priv_ok = False
    for g in priv:
        # the `$` may be added in a private helper of the writer (e.g. a block-level allocator)
        for n in sir.walk_reach(tc, g):
            p = sir.format_call(n)
            if p and p[0][0] == "lit" and p[0][1].startswith("$"):
                priv_ok = True
            # the same prefix assembled by hand: `String::from("$")` / `"$".to_string()` / `push('$')` before the generated name
            if n.get("k") == "lit" and n.get("t") in ("str", "char") and n.get("v") == "$":
                priv_ok = True
    obs.append(ob("C02.ident/private-prefix", priv_ok, "proc_gen/mod.rs", "private identifiers are `$`-prefixed (never reserved words): %s" % priv_ok))

    def member(word):
        """is `word` in the language of get_var_name(id) for id >= preserve ?  -> id or None"""
        if not word or word[0] not in start:
            return None
        i0 = start.index(word[0])
        v = 0
        mul = 1
        rest = word[1:]
        for ch in rest:
            if ch not in chars:
                return None
        if rest and chars.index(rest[-1]) == 0:
            return None  # most significant digit cannot be zero
        for ch in rest:
            v += chars.index(ch) * mul
            mul *= len(chars)
        ident_id = i0 + len(start) * v
        return ident_id if ident_id >= preserve else None
    ref = pt.load_ref("js_reserved.json")
    words = [(w, "reserved word") for w in ref["keywords"]] + [(w, "strict-mode reserved word") for w in ref["strict"]] + [(w, "name with special meaning") for w in ref["special"]]
    words += [(chr(c), "one-letter runtime name") for c in range(ord("A"), ord("Z") + 1)]
    # free identifiers of the emitter's fragments
    free = set()
    for s in sites:
        text = "".join(p[1] if p[0] == "lit" else "\x00" for p in s.pieces)
        text = re.sub(r"\"(?:\\.|[^\"\\])*\"|'(?:\\.|[^'\\])*'", " ", text)
        for m in re.finditer(r"(?<![\w$.\x00])([A-Za-z_$][\w$]*)(?![\w$\x00])", text):
            free.add(m.group(1))
    for c in ("RUNTIME_ITEMS", "EXTRA_RUNTIME_ITEMS", "WXS_RUNTIME_ITEMS", "WXS_RUNTIME"):
        cn = tc.const(c)
        if cn:
            keys = set(id(x["elems"][0]) for x in sir.walk(cn["e"]) if x.get("k") == "tuple" and len(x["elems"]) == 2)
            for n in sir.walk(cn["e"]):
                if n.get("k") == "lit" and n.get("t") == "str" and id(n) not in keys:
                    t = re.sub(r"\"(?:\\.|[^\"\\])*\"|'(?:\\.|[^'\\])*'", " ", n["v"])
                    bound = set()
                    for m in re.finditer(r"function\s*\w*\s*\(([^)]*)\)|\(([^()]*)\)\s*=>|\b(\w+)\s*=>|\bvar\s+(\w+)", t):
                        for g in m.groups():
                            if g:
                                bound.update(x.strip() for x in g.split(",") if x.strip())
                    for m in re.finditer(r"(?<![\w$.])([A-Za-z_$][\w$]*)(?!\s*:)", t):
                        if m.group(1) not in bound:
                            free.add(m.group(1))
    known = set(w for w, _ in words)
    for w in sorted(free - known):
        words.append((w, "free identifier of the emitter's fragments"))
    hits = 0
    for w, why in words:
        idn = member(w)
        if idn is not None:
            hits += 1
        obs.append(ob("C02.ident/word/%s" % w, idn is None, where,
                      "`%s` (%s) %s" % (w, why, "is not a generated identifier" if idn is None else "is the %d-th generated identifier of a scope" % idn),
                      witness=None if idn is None else "a template whose scope needs %d generated identifiers emits `var %s=...`" % (idn - preserve + 1, w)))
    if len(words) < 80:
        obs.append(ob("C02.floor/words", False, where, "only %d words checked" % len(words)))
    return obs


# ------------------------------------------------------------------ statement separators

def sep_rule(ctx):
    ob = ctx.ob
    tc = ctx.tc
    obs = []
    # who writes need_stat_sep (MIR field writes)
    writers = {}
    for b in ctx.mir.bodies:
        if b["crate"] != "glass_easel_template_compiler":
            continue
        for w in b["writes"]:
            if w["field"] == "need_stat_sep" and w["how"] == "assign":
                writers.setdefault(b["root"], 0)
                writers[b["root"]] += 1
    allowed = re.compile(r"^proc_gen::(JsBlockStat|JsTopScopeWriter|JsFunctionScopeWriter|JsExprWriter)(::|$)")
    foreign = [r for r in writers if not allowed.match(r)]
    obs.append(ob("C02.sep/owners", not foreign and bool(writers), "proc_gen/mod.rs", "need_stat_sep is assigned in %s" % sorted(writers) if not foreign else "need_stat_sep assigned outside the writer types: %s" % foreign))
    # the separator flag as an automaton: the writer methods are interpreted abstractly (lib/absint.py) for both values of the flag
    import absint as ai

    def flag_runs(fn, flag_in):
        """outcomes of fn with need_stat_sep = flag_in at entry: [(events, flag_out, tainted)], events = ('write', text) /
        ('call', parameter name, value of the flag at the call)"""
        params = set(x for x in fn.param_names() if x and x != "self")

        def hooks(it, e, st_):
            if e.get("k") == "call" and e["f"].get("k") == "path" and len(e["f"]["segs"]) == 1 and e["f"]["segs"][0] in params:
                return [(ai.FREE, st_.event(("call", e["f"]["segs"][0], st_.env.get("$f:need_stat_sep", ai.UNK))))]
            return None
        it = ai.Interp(hooks=hooks, idx=tc)
        it.field_vars = {"need_stat_sep"}
        env = {"self": ai.FREE, "$f:need_stat_sep": flag_in}
        for x in params:
            env[x] = ai.FREE
        try:
            outs = it.run(fn.body, env)
        except ai.TooManyPaths:
            return None
        return [(o.events, o.st.env.get("$f:need_stat_sep", ai.UNK), o.tainted) for o in outs if ("$error-exit",) not in o.events]

    def semis_before_call(events):
        n_ = 0
        for ev in events:
            if ev[0] == "call":
                return n_
            if ev[0] == "write" and ev[1] == ";":
                n_ += 1
        return n_
    # the separator automaton is whichever method of the function-scope writer tests the flag and then runs its closure
    # parameter (`stat`, or `expr_stmt` itself when the helper has been inlined)
    st = [f for f in tc.fns if f.base == "JsFunctionScopeWriter" and f.body and f.name != "custom_stmt_str"
          and any(x.get("k") == "field" and x["name"] == "need_stat_sep" for x in sir.walk(f.body))
          and any(x.get("k") == "call" and x["f"].get("k") == "path" and len(x["f"]["segs"]) == 1 and x["f"]["segs"][0] in f.param_names() for x in sir.walk(f.body))]
    if len(st) != 1:
        obs.append(ob("C02.sep/stat", False, "proc_gen/mod.rs", "the statement-separator method of JsFunctionScopeWriter was not found (%d candidates)" % len(st)))
    else:
        f = st[0]
        verdict, d = True, []
        for flag_in in (True, False):
            runs = flag_runs(f, flag_in)
            if not runs:
                verdict = None
                d.append("flag=%s: not readable" % flag_in)
                continue
            for events, flag_out, tainted in runs:
                calls = [ev for ev in events if ev[0] == "call"]
                good = len(calls) == 1 and semis_before_call(events) == (1 if flag_in else 0) and calls[0][2] is True and flag_out is True
                if not good and (tainted or flag_out == ai.UNK or (calls and calls[0][2] == ai.UNK)):
                    verdict = None if verdict is not False else False
                elif not good:
                    verdict = False
                d.append("flag=%s: %d `;` before the statement body, flag %s while it runs, %s afterwards" % (flag_in, semis_before_call(events), calls[0][2] if calls else "?", flag_out))
        obs.append(ob("C02.sep/stat", verdict, ctx.where(f), "stat() writes the pending `;` exactly when the flag is set, and leaves it set: " + "; ".join(d),
                      witness=None if verdict is not False else "two statements in one block are emitted without / with a doubled `;`"))
    # every statement-writing entry point passes stat(): expr_stmt calls self.stat; custom_stmt_str handles the flag itself
    es = [f for f in tc.fns if f.name == "expr_stmt" and f.base == "JsFunctionScopeWriter" and f.body]
    ok = len(es) == 1 and len(st) == 1 and (es[0] is st[0] or any(n.get("k") == "mcall" and n["m"] == st[0].name for n in sir.walk(es[0].body)))
    obs.append(ob("C02.sep/expr_stmt", ok, "proc_gen/mod.rs", "expr_stmt() goes through stat(): %s" % ok))
    cs = [f for f in tc.fns if f.name == "custom_stmt_str" and f.body]
    if len(cs) != 1:
        obs.append(ob("C02.sep/custom_stmt_str", False, "proc_gen/mod.rs", "custom_stmt_str() not found"))
    else:
        verdict, d = True, []
        for flag_in in (True, False):
            runs = flag_runs(cs[0], flag_in)
            if not runs:
                verdict = None
                continue
            for events, flag_out, tainted in runs:
                ws = [ev[1] for ev in events if ev[0] == "write"]
                semi_first = bool(ws) and ws[0] == ";"
                good = semi_first == flag_in and any("{}" in w_ for w_ in ws)
                if not good:
                    verdict = None if tainted and verdict is not False else False
                d.append("flag=%s: writes %s" % (flag_in, ws))
        obs.append(ob("C02.sep/custom_stmt_str", verdict, ctx.where(cs[0]), "custom_stmt_str() writes the pending `;` before a `;`-terminated user statement exactly when the flag is set: " + "; ".join(d)))
    # child blocks start from false
    ext = [f for f in tc.fns if f.base == "JsBlockStat" and f.name in ("new", "extend") and f.body]
    vals = []
    for f in ext:
        for n in sir.walk(f.body):
            if n.get("k") == "struct":
                for fl in n["fields"]:
                    if fl["name"] == "need_stat_sep":
                        vals.append((f.name, fl["e"].get("v")))
    obs.append(ob("C02.sep/fresh-blocks", len(vals) >= 2 and all(v is False for _n, v in vals), "proc_gen/mod.rs", "new/extended blocks start with need_stat_sep=false: %s" % vals))
    # scopes borrowing the top writer save and restore the flag
    for name in ("function_scope", "declare_on_top", "declare_on_top_init"):
        fs = [f for f in tc.fns if f.name == name and f.base == "JsTopScopeWriter" and f.body]
        if len(fs) != 1:
            obs.append(ob("C02.sep/save-restore/%s" % name, False, "proc_gen/mod.rs", "not found"))
            continue
        f = fs[0]
        verdict, d = True, []
        for flag_in in (True, False):
            runs = flag_runs(f, flag_in)
            if not runs:
                verdict = None
                continue
            for events, flag_out, tainted in runs:
                calls = [ev for ev in events if ev[0] == "call"]
                good = flag_out is flag_in and all(cv[2] is False for cv in calls)
                if not good:
                    verdict = None if (tainted or flag_out == ai.UNK) and verdict is not False else False
                d.append("flag=%s: %s while the nested writer runs, %s afterwards" % (flag_in, [cv[2] for cv in calls] or "-", flag_out))
        obs.append(ob("C02.sep/save-restore/%s" % name, verdict, ctx.where(f), "flag cleared for the nested buffer and restored: " + "; ".join(d)))
    # finish(): top declares joined by ',', statements by ';'
    fin = [f for f in tc.fns if f.name == "finish" and f.base == "JsTopScopeWriter" and f.body]
    ok = False
    if len(fin) == 1:
        lits = [p[1] for n in sir.walk(fin[0].body) for p in ((sir.write_fmt_call(n) or (None, []))[1]) if p[0] == "lit"]
        lits += [p[1] for n in sir.walk(fin[0].body) for p in (sir.format_call(n) or []) if p[0] == "lit"]
        lits += [n["args"][0]["v"] for n in sir.walk(fin[0].body) if n.get("k") == "mcall" and n["m"] == "join" and n["args"] and n["args"][0].get("k") == "lit"]
        ok = any(l.startswith("var ") for l in lits) and "," in lits and ";" in lits
    obs.append(ob("C02.sep/finish", ok, "proc_gen/mod.rs", "finish() writes `var `, `,` between declarations and `;` between statements: %s" % ok))
    return obs


def adjacency_rule(ctx):
    """C02.adjacent: operator fragments that could fuse with a neighbouring token are protected by spaces."""
    import prectables as pt
    from exprmodel import ExprModel, arm_table, bound_fields
    ob = ctx.ob
    tc = ctx.tc
    obs = []
    model = ExprModel(tc)
    g = pt.main_expression_fn(tc, model, "proc_gen")
    if g is None:
        return [ob("C02.adjacent/anchor", False, "proc_gen/expr.rs", "expression generator not found")]
    genf, gm, _n = g
    table = arm_table(gm, model)
    out_param = genf.param_names()[-1]
    for v in model.variants:
        if v not in table:
            continue
        arm, case = table[v][0]
        names = [b for b in bound_fields(case).values() if b]
        ev = pt.arm_events(arm["body"], names, variant=v)
        lits = [e[1] for e in ev if e[0] == "lit" and e[2] == out_param]
        for lit in lits:
            core = lit.strip()
            if core in ("+", "-") and v in model.unary_variants():
                okk = lit.startswith(" ")
                obs.append(ob("C02.adjacent/%s" % v, okk, ctx.where(genf), "unary sign is written as %r: %s" % (lit, "a leading space keeps it from fusing with a preceding `%s` into `%s%s`" % (core, core, core) if okk else "directly after another `%s` it forms `%s%s` (increment/decrement): a syntax error" % (core, core, core)),
                              witness=None if okk else "{{ a - -b }} emits D.a--D.b"))
            elif re.fullmatch(r"[a-z]+", core) and core in ("typeof", "void", "instanceof", "in", "new", "delete"):
                okk = lit.startswith(" ") and lit.endswith(" ")
                obs.append(ob("C02.adjacent/%s" % v, okk, ctx.where(genf), "word operator is written as %r (must be space-delimited to stay a separate token)" % lit,
                              witness=None if okk else "{{ a instanceof b }} emits D.ainstanceofD.b"))
    return obs


def rawtext_end_rule(ctx):
    """C02.userjs/raw-text-end: the body of an inline script ends at the first `</wxs` that is not the beginning of a longer tag
    name - judged with the continuation class of the tag-name scanner (`Ident::is_following_char`), the class the end-tag parser
    that follows will use. A narrower class cuts a valid script inside a string such as "</wxs-x>"."""
    ob = ctx.ob
    tc = ctx.tc
    obs = []
    for f in tc.fns:
        if not f.body or f.module[:1] != ["parse"]:
            continue
        pm = None
        for n in sir.walk(f.body, into_closures=True):
            if not (n.get("k") == "mcall" and n["m"] in ("skip_until_before", "skip_until_after") and n["args"]):
                continue
            a0 = sir.strip_ref(n["args"][0])
            if sir.const_text(a0) is not None:      # `const END: &str = "</wxs"`
                a0 = {"k": "lit", "t": "str", "v": sir.const_text(a0)}
            if not (a0.get("k") == "lit" and isinstance(a0.get("v"), str) and a0["v"].startswith("</") and len(a0["v"]) > 2):
                continue
            pm = pm or sir.parent_map(f.body)
            cur = n
            while id(cur) in pm and cur.get("k") not in ("loop", "while", "for"):
                cur = pm[id(cur)]
            if cur.get("k") not in ("loop", "while", "for"):
                obs.append(ob("C02.userjs/raw-text-end/%s" % a0["v"], False, ctx.where(f), "the scan for `%s` is not repeated: the first occurrence ends the script even inside a longer name" % a0["v"]))
                continue
            preds = set()
            for x in sir.walk(cur, into_closures=True):
                if x.get("k") == "call" and x["f"].get("k") == "path" and re.match(r"is_\w*char$", x["f"]["segs"][-1]):
                    preds.add(x["f"]["segs"][-1])
                if x.get("k") == "mcall" and re.match(r"is_(ascii_)?(alpha|alphanumeric|whitespace)", x["m"]):
                    preds.add(x["m"])
            ok = preds == {"is_following_char"}
            obs.append(ob("C02.userjs/raw-text-end/%s" % a0["v"], ok if preds else None, ctx.where(f),
                          "after `%s` the look-ahead asks %s" % (a0["v"], sorted(preds)) + ("" if ok else ": the tag-name scanner continues a name on `Ident::is_following_char`"),
                          witness=None if ok or not preds else '<wxs module="m">var s = "</wxs-x>"; exports.s = s</wxs> : the script is cut inside the string literal'))
    if not obs:
        obs.append(ob("C02.userjs/raw-text-end/anchor", None, "parse/tag.rs", "no raw-text scan (`skip_until_before(\"</..\")`) found in the parser"))
    return obs


def userjs_rule(ctx, sites):
    """C02.userjs: user JavaScript reaches the output only inside a function body followed by a line terminator, or through
    custom_stmt_str (which separates statements); never by raw concatenation."""
    ob = ctx.ob
    obs = []
    n = 0
    for s in sites:
        if s.fn["name"] == "custom_stmt_str":
            continue  # the contract sink itself: "content must be valid statements ended by a semicolon"
        pieces = s.pieces
        for i, p in enumerate(pieces):
            if p[0] != "hole":
                continue
            arg = sir.expr_str(p[1])
            a = sir.strip_ref(p[1])
            is_user = False
            if a.get("k") == "path" and a["s"] in ("content", "script"):
                is_user = True
            if a.get("k") == "field" and a["name"] in USER_JS_FIELDS:
                is_user = True
            if not is_user:
                continue
            n += 1
            nxt = pieces[i + 1][1] if i + 1 < len(pieces) and pieces[i + 1][0] == "lit" else ""
            prv = pieces[i - 1][1] if i > 0 and pieces[i - 1][0] == "lit" else ""
            okk = nxt.startswith("\n") and prv.rstrip().endswith("{")
            fname = "%s%s" % ((s.fn.get("_impl") + "::") if s.fn.get("_impl") else "", s.fn["name"])
            obs.append(ob("C02.userjs/%s/%s" % (fname, arg), okk, s.where,
                          "user script `%s` is pasted as %r{}%r: %s" % (arg, prv[-12:], nxt[:6], "inside a function body and followed by a line terminator" if okk else
                                                                      "a body ending in a `//` comment without a final newline comments out the closing `})` of its wrapper"),
                          witness=None if okk else '<wxs module="m">exports.a = 1 // note</wxs> : the generated `...=>{exports.a = 1 // note})()` does not parse'))
    # raw uses of the extra runtime string
    tc = ctx.tc
    for f in tc.fns:
        if not f.body or "group" not in f.module or (f.trait and f.trait.split("::")[-1] in ("Debug", "Clone")):
            continue
        pm = sir.parent_map(f.body)
        for x in sir.walk(f.body):
            if x.get("k") == "field" and x["name"] == "extra_runtime_string":
                par = pm.get(id(x))
                chain = []
                p = x
                while id(p) in pm and len(chain) < 4:
                    p = pm[id(p)]
                    chain.append(p)
                how = None
                for c in chain:
                    if c.get("k") == "mcall" and c["m"] == "custom_stmt_str":
                        how = "custom_stmt_str"
                        break
                    if c.get("k") == "mcall" and c["m"] in ("len", "is_empty") and sir.root_expr_name(c["recv"]) == "self":
                        how = "test"
                        break
                    if c.get("k") == "mcall" and c["m"] == "push_str" and sir.expr_str(c["recv"]).endswith("extra_runtime_string"):
                        how = "state"
                        break
                    if c.get("k") == "assign" and c["l"] is x:
                        how = "state"
                        break
                    if c.get("k") == "struct":
                        how = "state"
                        break
                    if c.get("k") == "binary" and c["op"] in ("+", "+="):
                        how = "concat"
                        break
                if how in ("custom_stmt_str", "test", "state"):
                    continue
                n += 1
                obs.append(ob("C02.userjs/%s/extra_runtime_string" % f.qual, False, ctx.where(f),
                              "the extra runtime script is %s to emitted code instead of going through custom_stmt_str(): no `;` separates it from the preceding statement" % ("concatenated" if how == "concat" else "pasted"),
                              witness="set_extra_runtime_script(\"var x=1;\") on a group without scripts: get_runtime_string() = `...var Q={...}var x=1;`"))
    obs.append(ob("C02.userjs/scan", True, "group.rs, proc_gen/tag.rs", "%d user-JavaScript sinks examined" % n))
    return obs


def balance_rule(ctx):
    """C02.balance: on every control-flow path, the text an emitter writes is bracket-balanced (lib/dyck.py)"""
    import dyck
    ob = ctx.ob
    tc = ctx.tc
    fns = [f for f in tc.fns if f.body and f.module[:1] in (["proc_gen"], ["group"], ["binding_map"])]
    A = dyck.Analyzer(tc, fns)
    obs = []
    for f in fns:
        A.summary(f)
    n = 0
    called = set()
    for q, cs in A.calls.items():
        called |= {c for c in cs if c != q}
    for f in fns:
        summ = A.summaries[f.qual]
        probs = list(A.problems.get(f.qual, []))
        bad = sorted(x for x in summ if x != ("", ""))
        is_root = f.qual not in called
        if bad and is_root:
            # name the innermost functions whose own text is unbalanced, for diagnosis
            inner = sorted(q for q, sm in A.summaries.items() if any(x != ("", "") for x in sm) and not any(any(y != ("", "") for y in A.summaries.get(c, ())) for c in A.calls.get(q, ()) if c != q))
            probs.append("the text emitted from this entry point is unbalanced on some path (%s); unbalanced text originates in %s" % (", ".join("closes `%s` it never opened / leaves `%s` open" % b for b in bad[:3]), inner[:4]))
        if f.qual not in A.nontrivial and not probs:
            continue
        n += 1
        note = "" if not bad or is_root else " (this helper opens/closes brackets for its callers: %s - balanced where it is used)" % bad[:2]
        obs.append(ob("C02.balance/%s" % f.qual, not probs, ctx.where(f), "; ".join(probs) if probs else "every path writes bracket-balanced text (holes balanced by induction; callees' effects and local string buffers inlined where pasted)" + note,
                      witness=None if not probs else "a template that drives generation down this path yields JavaScript with a missing or surplus bracket"))
    if n < 20:
        obs.append(ob("C02.floor/balance", False, "proc_gen/*.rs", "only %d emitters with bracket text analysed (floor 20)" % n))
    # constant JavaScript snippets
    k = 0
    for item in _const_strings(ctx):
        name, text = item
        if not re.search(r"function|=>|\bvar\b", text):
            continue
        k += 1
        msg = dyck.balanced_text(text)
        obs.append(ob("C02.balance/const/%s" % name, msg is None, "group.rs", "constant JavaScript snippet is bracket-balanced" if msg is None else "constant JavaScript snippet %s" % msg))
    if k < 6:
        obs.append(ob("C02.floor/balance-consts", False, "group.rs", "only %d constant JavaScript snippets found (floor 6)" % k))
    return obs


def _const_strings(ctx):
    """(name, text) for every string literal inside a const/static item of group.rs (runtime helper tables)"""
    out = []
    for (mod, name), it in sorted(ctx.tc.consts.items()):
        if not mod.startswith("group"):
            continue
        lits = [x for x in sir.walk(it.get("e") or {}) if x.get("k") == "lit" and x.get("t") == "str"]
        for i, x in enumerate(lits):
            out.append(("%s#%d" % (name, i), x["v"]))
    return out


def run(ctx):
    obs, sites = holes_rule(ctx)
    obs += adjacency_rule(ctx)
    obs += userjs_rule(ctx, sites)
    obs += rawtext_end_rule(ctx)
    from rules.c12 import find_escaper, check_escaper
    ef = find_escaper(ctx.tc)
    if ef is not None:
        o, _ = check_escaper(ctx, ef, ctx.mir, "glass_easel_template_compiler", "C02.escaper")
        obs += o
    else:
        obs.append(ctx.ob("C02.escaper/anchor", False, "escape.rs", "string-literal emitter not found"))
    obs += validated_ident_rule(ctx)
    obs += ident_rule(ctx, sites)
    obs += sep_rule(ctx)
    # an integer literal printed bare must be non-negative (`a - -1` would fuse): the parser stores what it accumulated (C03.literal)
    from rules.c03 import literal_rules
    for x in literal_rules(ctx):
        if x["key"].endswith("/stored-as-accumulated"):
            x = dict(x)
            x["key"] = x["key"].replace("C03.literal", "C02.literal")
            obs.append(x)
    obs += balance_rule(ctx)
    from rules.c03 import float_display_rule
    obs += float_display_rule(ctx, "C02.float")
    # names the expression parser accepts are pasted raw (`D.name`, `.member`, `{key:`): its identifier tables admit only
    # characters an ECMAScript name may contain (shared with C15.ident/alphabet)
    from share import relabel
    from rules.c15 import wave9_rules as c15_w9
    obs += relabel(c15_w9(ctx), "C15.ident/alphabet", "C02.ident/parser-alphabet")
    # an empty sub-tree is not pasted as `()` (shared with C06.runtime/tree-tokens/written-asked)
    from rules.c06 import wave9_rules as c06_w9
    obs += relabel(c06_w9(ctx), "C06.runtime/tree-tokens/written-asked", "C02.paths/written-asked")
    # wave 11: `??` written natively next to `||` / `&&` is an early error of ECMAScript (shared with C03.prec/gen)
    from rules.c03 import run as c03_run
    obs += relabel(c03_run(ctx), "C03.prec/gen/NullishCoalescing", "C02.syntax/nullish-mixing")
    return obs
