"""Bracket-balance (Dyck) analysis of emitter functions, expanded view.

For every function of the emitter modules the literal fragments written on each control-flow path are scanned for
( [ { ) ] } outside JavaScript string quotes.  Text is tracked per *buffer*: local `String` buffers (`let mut s =
String::new()`, `let s = format!(..)`) have their own bracket effect, which is inlined where the buffer is pasted
into another write (`write!(ret, "{{{}}}", s)`); everything else goes to the external stream `$w` (writer parameters,
`self.w`).  Holes that are not tracked buffers and calls to other emitters count as balanced text - each emitter is
verified on its own, so this is an induction over the call graph.  An effect is (under, stack): `under` = closers that
consume brackets opened by earlier text, `stack` = openers still open.  Tests on the same condition text are followed
consistently (`if need_paren {"("} .. if need_paren {")"}`); loops are iterated to a fixpoint of effects.
"""
import re
import sir

OPEN = "([{"
CLOSE = ")]}"
PAIR = {")": "(", "]": "[", "}": "{"}
MAX_STATES = 3000
EPS = ("", "", "", "")  # (under, stack, quote, last significant character)


class St:
    """bufs: name -> (under, stack, quote)"""
    __slots__ = ("bufs", "memo", "bad", "hole", "dirty")

    def __init__(self, bufs=None, memo=(), bad=None, hole=None, dirty=frozenset()):
        self.bufs = bufs if bufs is not None else {"$w": EPS}
        self.memo, self.bad, self.hole, self.dirty = memo, bad, hole, dirty

    def key(self):
        return (tuple(sorted(self.bufs.items())), self.memo, self.bad, self.hole, self.dirty)

    def copy(self, **kw):
        s = St(dict(self.bufs), self.memo, self.bad, self.hole, self.dirty)
        for k, v in kw.items():
            setattr(s, k, v)
        return s

    def eff(self, name="$w"):
        return self.bufs.get(name, EPS)


def scan_eff(eff, text, bad=None, holes=None):
    under, stack, quote, last = eff
    i = 0
    n = len(text)
    while i < n:
        c = text[i]
        if quote:
            if c == "\\":
                i += 2
                continue
            if c == quote:
                quote = ""
                last = "x"
        elif c in "\"'`":
            quote = c
        elif c in OPEN:
            stack += c
            last = c
        elif c in CLOSE:
            if stack:
                if stack[-1] != PAIR[c] and bad is None:
                    bad = "`%s` closes `%s`" % (c, stack[-1])
                stack = stack[:-1]
            else:
                under += c
            last = c
        elif c == ",":
            if bad is None and last == "k":
                bad = "`,` directly after a keyword that needs an operand (writing `%s`): an empty declarator" % text[:40]
            if bad is None and stack and stack[-1] == "(" and last in (",", "("):
                bad = "`%s,` inside parentheses: an empty argument (writing `%s`)" % (last, text[:40])
            if bad is None and stack and stack[-1] == "{" and last in (",", "{"):
                bad = "`%s,` inside braces: an empty member of an object literal (writing `%s`)" % (last, text[:40])
            if holes is not None and stack and stack[-1] == "[" and last in (",", "["):
                holes.append("`%s,` inside an array literal: an empty element (writing `%s`)" % (last, text[:40]))
            last = ","
        elif not c.isspace():
            if (c.isalnum() or c in "_$") and c.isascii():
                # a word character written directly after a word character of the previous literal write: two tokens fuse
                if i == 0 and last == "w" and bad is None:
                    bad = "`%s` is written directly after a word of the previous fragment: the two tokens fuse (e.g. `elseif`)" % text[:20]
                last = "w"
            else:
                last = "x"
        else:
            if last == "w":
                # a blank after a word: `var `, `return ` .. expect an operand next (a `,` there is an empty declarator / operand)
                j = i
                while j > 0 and (text[j - 1].isalnum() or text[j - 1] in "_$"):
                    j -= 1
                last = "k" if text[j:i] in ("var", "let", "const", "return", "typeof", "new", "void", "in", "instanceof", "case") else "x"
        i += 1
    return (under, stack, quote, last), bad


def scan(st, text, target="$w"):
    hs = []
    e, bad = scan_eff(st.eff(target), text, st.bad, hs)
    s = st.copy(bad=bad)
    if target != "$w" and text:
        s.dirty = s.dirty | {target}
    if hs and st.hole is None:
        s.hole = hs[0]
    s.bufs[target] = e
    return s


def inline(st, target, eff, mark=True):
    """append text whose bracket effect is `eff` to buffer `target`"""
    cur = st.eff(target)
    if cur[2]:
        return st  # pasted inside a quoted string: brackets do not count
    e, bad = scan_eff(cur, eff[0], st.bad)
    e = (e[0], e[1] + eff[1], eff[2], (eff[3] if eff[3] != "w" else "x") or "x")  # a pasted buffer counts as some text
    s = st.copy(bad=bad)
    s.bufs[target] = e
    if target != "$w" and mark:
        s.dirty = s.dirty | {target}
    return s


def dedup(states):
    seen = {}
    for s in states:
        seen.setdefault(s.key(), s)
    out = list(seen.values())
    if len(out) > MAX_STATES:
        raise OverflowError("state cap")
    return out


def _is_string_new(e):
    if e is None:
        return False
    if e.get("k") == "call":
        p = sir.call_path(e) or ""
        return p.endswith("String::new") or p.endswith("String::with_capacity")
    return False


def _simple_name(e):
    """`x`, `&x`, `&mut x`, `x.as_str()`, `x.clone()`, `x.to_string()`, `*x` -> 'x'"""
    if not isinstance(e, dict):
        return None
    e = sir.strip_ref(e)
    while True:
        if e.get("k") == "mcall" and e["m"] in ("as_str", "clone", "to_string", "as_ref", "to_owned") and not e["args"]:
            e = sir.strip_ref(e["recv"])
        elif e.get("k") == "unary" and e.get("op") == "*":
            e = sir.strip_ref(e["e"])
        else:
            break
    if e.get("k") == "path" and len(e["segs"]) == 1:
        return e["segs"][0]
    return None


class Analyzer:
    def __init__(self, index, fns):
        self.index = index
        self.fns = fns
        self.byname = {}
        for f in fns:
            self.byname.setdefault(f.name, []).append(f)
        self.summaries = {}
        self.in_progress = set()
        self.problems = {}
        self.nontrivial = set()
        self.writers = set()
        self.holes = {}
        self.calls = {}
        self.dropped = {}
        self.cur = None

    # ---------------------------------------------------------------- summaries
    def summary(self, f):
        """set of (under, stack): effect of f on its output (the external stream, or the String it returns)"""
        if f.qual in self.summaries:
            return self.summaries[f.qual]
        if f.qual in self.in_progress:
            return {("", "")}
        self.in_progress.add(f.qual)
        saved = self.cur
        self.cur = f
        probs = []
        term = []
        try:
            env = {"closures": {}, "cparams": set(x for x in f.param_names() if x), "conds": self._repeated_conds(f.body), "ret": []}
            res = self.walk(f.body, [St()], env, probs)
            tail = f.body["stmts"][-1] if f.body.get("stmts") else None
            tail_e = tail.get("e") if tail is not None and tail.get("k") == "expr" and not tail.get("semi") else None
            for s in res["normal"]:
                term.append((s, tail_e))
            term += env["ret"]
            if res["break"] or res["continue"]:
                probs.append("break/continue outside a loop")
        except OverflowError:
            probs.append("too many bracket states (cap %d): not analysable" % MAX_STATES)
        finally:
            self.in_progress.discard(f.qual)
            self.cur = saved
        summ = set()
        for s, rexpr in term:
            if s.bad:
                probs.append(s.bad)
            if s.hole:
                self.holes.setdefault(f.qual, set()).add(s.hole)
            name = self._returned_buffer(rexpr)
            w = s.eff("$w")
            if name and name in s.bufs:
                b = s.eff(name)
                if (w[0], w[1]) != ("", ""):
                    probs.append("writes unbalanced text to its writer (`%s` / `%s`) while returning a string" % (w[0], w[1]))
                eff = b
            else:
                eff = w
            if eff[2]:
                probs.append("a path ends inside a %s-quoted string" % eff[2])
            summ.add((eff[0], eff[1]))
        self.summaries[f.qual] = summ or {("", "")}
        if probs:
            self.problems[f.qual] = sorted(set(probs))
        return self.summaries[f.qual]

    def _returned_buffer(self, e):
        if e is None:
            return None
        if e.get("k") == "call" and (sir.call_path(e) or "").split("::")[-1] in ("Ok", "Some") and len(e["args"]) == 1:
            e = e["args"][0]
        return _simple_name(e)

    def _repeated_conds(self, body):
        cnt = {}
        for n in sir.walk(body):
            if n.get("k") == "if":
                c = self._cond_key(n["cond"])
                cnt[c] = cnt.get(c, 0) + 1
            elif n.get("k") == "match":
                c = "match:" + sir.expr_str(n["e"])
                cnt[c] = cnt.get(c, 0) + 1
        return {c for c, k in cnt.items() if k >= 2}

    def _cond_key(self, c):
        if c.get("k") == "let":
            return "let %s = %s" % (sir.pat_str(c["pat"]).split("(")[0], sir.expr_str(c["e"]))
        return sir.expr_str(c)

    # ---------------------------------------------------------------- helpers
    def _target(self, recv, st):
        nm = _simple_name(recv) if recv is not None else None
        return nm if nm and nm in st.bufs and nm != "$w" else "$w"

    def _pieces(self, pieces, states, target_of, env, probs, R):
        """write format pieces; target_of(state) -> buffer name"""
        cur = states
        self.writers.add(self.cur.qual)
        for p in pieces:
            if p[0] == "lit":
                if re.search(r"[()\[\]{}]", p[1]):
                    self.nontrivial.add(self.cur.qual)
                cur = [scan(s, p[1], target_of(s)) for s in cur]
            else:
                e = p[1]
                if not isinstance(e, dict):
                    continue
                nm = _simple_name(e)
                nxt = []
                rest = []
                for s in cur:
                    if nm and nm in s.bufs and nm != "$w":
                        s2 = inline(s, target_of(s), s.eff(nm))
                        s2.dirty = s2.dirty - {nm}
                        nxt.append(s2)
                    else:
                        rest.append(s)
                if rest:
                    prev = env.get("hole_target")
                    env["hole_target"] = target_of
                    r = self.walk(e, rest, env, probs)
                    if prev is None:
                        env.pop("hole_target", None)
                    else:
                        env["hole_target"] = prev
                    for s2 in r["normal"]:
                        t = target_of(s2)
                        e0 = s2.eff(t)
                        if not e0[2]:
                            s2 = s2.copy()
                            s2.bufs[t] = (e0[0], e0[1], e0[2], "x")
                        nxt.append(s2)
                    for st_ in ("return", "break", "continue"):
                        R[st_] += r[st_]
                cur = dedup(nxt)
        return cur

    def _build_into(self, name, pieces, states, env, probs, R):
        tmp = "$tmp:" + name
        ins = []
        for s in states:
            s2 = s.copy()
            s2.bufs[tmp] = EPS
            ins.append(s2)
        cur = self._pieces(pieces, ins, lambda s: tmp, env, probs, R)
        out = []
        for s in cur:
            s2 = s.copy()
            s2.bufs[name] = s2.bufs.pop(tmp)
            out.append(s2)
        return out

    # ---------------------------------------------------------------- walk
    def walk(self, n, states, env, probs):
        R = {"normal": [], "return": [], "break": [], "continue": []}
        if not states:
            return R
        if not isinstance(n, dict):
            R["normal"] = states
            return R
        k = n.get("k")
        if k == "block":
            cur = states
            declared = set()
            for s in n["stmts"]:
                if s.get("k") == "local":
                    for nm, _p in sir.pat_bindings(s["pat"]):
                        declared.add(nm)
                r = self.walk(s, cur, env, probs)
                for st in ("return", "break", "continue"):
                    R[st] += r[st]
                cur = dedup(r["normal"])
                if not cur:
                    break
            # buffers declared in this block go out of scope (unless the block's value is one of them)
            tail = n["stmts"][-1] if n["stmts"] else None
            keep = _simple_name(tail.get("e")) if tail is not None and tail.get("k") == "expr" and not tail.get("semi") else None
            if keep in declared:
                declared.discard(keep)
            R["normal"] = [self._drop_all(s, declared, scope_end=True) for s in cur]
            for st in ("break", "continue"):
                R[st] = [self._drop_all(s, declared) for s in R[st]]
            return self._dd(R)
        if k == "local":
            init = n.get("init")
            pat = n["pat"]
            name = pat.get("name") if pat.get("k") == "p_ident" else None
            if init is not None and init.get("k") == "closure" and name:
                env["closures"][name] = init
                R["normal"] = states
                return R
            if name and init is not None and init.get("k") == "lit" and init.get("t") == "bool":
                env.setdefault("flags", set()).add(name)
                R["normal"] = [s.copy(memo=tuple(sorted([(c, v) for c, v in s.memo if c != name] + [(name, bool(init["v"]))]))) for s in states]
                return R
            if name and init is not None and init.get("k") == "mcall" and init["m"] == "len" and not init["args"]:
                # `let mark = buf.len();` .. `buf.truncate(mark)`: a roll-back point of a text buffer
                out = []
                for s in states:
                    tgt = self._target(init["recv"], s)
                    if tgt in s.bufs:
                        s2 = s.copy()
                        s2.bufs["$snap:%s:%s" % (name, tgt)] = s.eff(tgt)
                        out.append(s2)
                    else:
                        out.append(s)
                R["normal"] = out
                return R
            if name and _is_string_new(init):
                out = []
                for s in states:
                    s2 = s.copy()
                    s2.bufs[name] = EPS
                    out.append(s2)
                R["normal"] = out
                return R
            fc = sir.format_call(init) if init is not None else None
            if name and fc is not None:
                R["normal"] = self._build_into(name, fc, states, env, probs, R)
                return self._dd(R)
            if init is not None and pat.get("k") == "p_tuple" and init.get("k") in ("match", "if") and all(e_.get("k") in ("p_ident", "p_wild") for e_ in pat["elems"]):
                # `let (key, v) = match x { A => (Some(..), a), B => (None, b) }`: each arm's path remembers what `key` is
                branches = []
                if init.get("k") == "match":
                    r0 = self.walk(init["e"], states, env, probs)
                    for a in init["arms"]:
                        branches.append((self._shadow(r0["normal"], a["pat"]), a["body"]))
                else:
                    c_ = init["cond"]
                    r0 = self.walk(c_["e"] if c_.get("k") == "let" else c_, states, env, probs)
                    branches.append((r0["normal"], init["then"]))
                    if init.get("else") is not None:
                        branches.append((r0["normal"], init["else"]))
                out = []
                for ins, body in branches:
                    rb = self.walk(body, ins, env, probs)
                    for st in ("return", "break", "continue"):
                        R[st] += rb[st]
                    tail = body
                    while tail is not None and tail.get("k") == "block":
                        tail = tail["stmts"][-1].get("e") if tail["stmts"] and tail["stmts"][-1].get("k") == "expr" else None
                    facts = []
                    if tail is not None and tail.get("k") == "tuple" and len(tail["elems"]) == len(pat["elems"]):
                        for pe, te in zip(pat["elems"], tail["elems"]):
                            if pe.get("k") != "p_ident":
                                continue
                            ts = sir.expr_str(sir.strip_ref(te))
                            if ts.startswith("Some("):
                                facts += [("%s.is_some()" % pe["name"], True), ("%s.is_none()" % pe["name"], False)]
                            elif ts == "None":
                                facts += [("%s.is_some()" % pe["name"], False), ("%s.is_none()" % pe["name"], True)]
                    for s_ in rb["normal"]:
                        m_ = dict(s_.memo)
                        m_.update(dict(facts))
                        out.append(s_.copy(memo=tuple(sorted(m_.items()))))
                R["normal"] = out
                return self._dd(R)
            cur = states
            if init is not None:
                r = self.walk(init, cur, env, probs)
                for st in ("return", "break", "continue"):
                    R[st] += r[st]
                cur = r["normal"]
            if n.get("else") is not None:
                r = self.walk(n["else"], cur, env, probs)
                for st in ("return", "break", "continue"):
                    R[st] += r[st]
            if name:
                src = _simple_name(init) if init is not None else None
                cur = [self._alias(s, name, src) if src else self._drop(s, name) for s in cur]
            R["normal"] = cur
            return self._dd(R)
        if k == "expr":
            return self.walk(n["e"], states, env, probs)
        if k == "path" and len(n.get("segs", [])) == 1:
            nm0 = n["segs"][0]
            R["normal"] = [s.copy(dirty=s.dirty - {nm0}) if nm0 in s.dirty else s for s in states]
            return R
        if k in ("item", "closure", "mac", "lit", "path"):
            R["normal"] = states
            return R
        if k == "if":
            cond = n["cond"]
            r0 = self.walk(cond["e"] if cond.get("k") == "let" else cond, states, env, probs)
            for st in ("return", "break", "continue"):
                R[st] += r0[st]
            ck = self._cond_key(cond)
            neg = False
            c0 = cond
            if c0.get("k") == "unary" and c0.get("op") == "!":
                c1 = c0["e"]
                while c1.get("k") == "paren":
                    c1 = c1["e"]
                if c1.get("k") == "path" and len(c1["segs"]) == 1:
                    ck, neg = c1["segs"][0], True
            track = ck in env["conds"] or ck in env.get("flags", ()) or any(ck in dict(s_.memo) for s_ in r0["normal"])
            t_in, e_in = [], []
            for s in r0["normal"]:
                m = dict(s.memo)
                if track and ck in m:
                    ((t_in if m[ck] else e_in) if not neg else (e_in if m[ck] else t_in)).append(s)
                elif track:
                    t_in.append(s.copy(memo=tuple(sorted(list(s.memo) + [(ck, not neg)]))))
                    e_in.append(s.copy(memo=tuple(sorted(list(s.memo) + [(ck, neg)]))))
                else:
                    t_in.append(s)
                    e_in.append(s)
            if cond.get("k") == "let":
                t_in = self._shadow(t_in, cond["pat"])
            rt = self.walk(n["then"], t_in, env, probs)
            if n.get("else") is None and cond.get("k") == "let" and "Some" in sir.pat_str(cond["pat"]) and cond["e"].get("k") == "mcall" and cond["e"]["m"] in ("next", "first", "split_first"):
                # `if let Some(x) = it.next() { write x }` without an else: whether the sequence can be empty here is not
                # something this analysis knows (it usually follows a non-emptiness test); a pending keyword is not held
                # against the skipping path
                def relax(s_):
                    b = {k_: ((v_[0], v_[1], v_[2], "x") if len(v_) == 4 and v_[3] == "k" else v_) for k_, v_ in s_.bufs.items()}
                    return s_.copy(bufs=b)
                e_in = [relax(s_) for s_ in e_in]
            re_ = self.walk(n["else"], e_in, env, probs) if n.get("else") is not None else {"normal": e_in, "return": [], "break": [], "continue": []}
            for st in R:
                R[st] += rt[st] + re_[st]
            return self._dd(R)
        if k == "match":
            r0 = self.walk(n["e"], states, env, probs)
            for st in ("return", "break", "continue"):
                R[st] += r0[st]
            ck = "match:" + sir.expr_str(n["e"])
            track = ck in env["conds"]
            def arm_id(a_):
                # two matches on the same scrutinee are correlated by the variants their arms name, not by how the
                # payload is bound (`Static(_)` in one match, `Static(v)` in the other)
                vs_ = sir.pat_variants(a_["pat"])
                return "|".join(sorted(vs_)) if vs_ else sir.pat_str(a_["pat"])
            arm_ids = [arm_id(a_) for a_ in n["arms"]]
            for a in n["arms"]:
                ins = []
                pat = arm_id(a)
                for s in r0["normal"]:
                    m = dict(s.memo)
                    if track and ck in m and m[ck] in arm_ids:
                        if m[ck] == pat:
                            ins.append(s)
                    elif track and ck in m:
                        ins.append(s)      # the remembered arm has no counterpart here: every arm is possible
                    elif track:
                        ins.append(s.copy(memo=tuple(sorted(list(s.memo) + [(ck, pat)]))))
                    else:
                        ins.append(s)
                cur = self._shadow(ins, a["pat"])
                if a.get("guard") is not None:
                    cur = self.walk(a["guard"], cur, env, probs)["normal"]
                ra = self.walk(a["body"], cur, env, probs)
                for st in R:
                    R[st] += ra[st]
            return self._dd(R)
        if k in ("for", "while", "loop"):
            cur = states
            if k == "for":
                r0 = self.walk(n["e"], cur, env, probs)
                cur = r0["normal"]
            elif k == "while":
                c = n["cond"]
                r0 = self.walk(c["e"] if c.get("k") == "let" else c, cur, env, probs)
                cur = r0["normal"]
            # fixpoint over iterations; the memo of conditions whose variables the body assigns is dropped
            assigned = set()
            for x in sir.walk(n["body"]):
                if x.get("k") == "assign" or (x.get("k") == "binary" and str(x.get("op", "")).endswith("=") and x.get("op") not in ("==", "!=", "<=", ">=")):
                    rn = sir.root_expr_name(x["l"])
                    if rn and not (x.get("k") == "assign" and _simple_name(x["l"]) == rn and x["r"].get("k") == "lit" and x["r"].get("t") == "bool" and rn in env.get("flags", ())):
                        assigned.add(rn)

            def strip(s):
                return s.copy(memo=tuple((c, v) for c, v in s.memo if not any(re.search(r"\b%s\b" % re.escape(a), str(c)) for a in assigned)))
            if k == "for" and n.get("pat") is not None:
                cur = self._shadow(cur, n["pat"])
            # `for (i, x) in it.enumerate()`: `i > 0` / `i != 0` is false in the first iteration and true afterwards
            idx_keys = []
            if k == "for" and n.get("pat") is not None and n["pat"].get("k") == "p_tuple" and n["pat"]["elems"] and n["pat"]["elems"][0].get("k") == "p_ident" \
                    and n["e"].get("k") == "mcall" and n["e"]["m"] == "enumerate":
                iv = n["pat"]["elems"][0]["name"]
                for c in sir.walk(n["body"]):
                    if c.get("k") == "if" and c["cond"].get("k") == "binary" and c["cond"].get("op") in (">", "!=") and sir.expr_str(c["cond"]["l"]) == iv and str(c["cond"]["r"].get("v")) == "0":
                        idx_keys.append(self._cond_key(c["cond"]))
                env["conds"] = set(env["conds"]) | set(idx_keys)

            def with_idx(s, val):
                if not idx_keys:
                    return s
                return s.copy(memo=tuple(sorted([(c, v) for c, v in s.memo if c not in idx_keys] + [(kk, val) for kk in idx_keys])))
            def unword(s):
                # token fusion is only judged inside one iteration: which iteration follows which is not known well enough
                if not any(v[3] == "w" for v in s.bufs.values()):
                    return s
                s2 = s.copy()
                for b_, v in list(s2.bufs.items()):
                    if v[3] == "w":
                        s2.bufs[b_] = (v[0], v[1], v[2], "x")
                return s2
            seen = {}
            frontier = [with_idx(strip(unword(s)), False) for s in cur]
            after_states = []
            # `for x in TABLE.iter()` over a constant array with at least one element runs at least once
            at_least_once = False
            if k == "for":
                root = n["e"]
                while root.get("k") == "mcall" and root["m"] in ("iter", "into_iter", "enumerate", "rev", "cloned", "copied"):
                    root = root["recv"]
                root = sir.strip_ref(root)
                if root.get("k") == "path":
                    c_ = self.index.const(root["segs"][-1]) if hasattr(self.index, "const") else None
                    arr = (c_ or {}).get("e") or {}
                    if arr.get("k") == "ref":
                        arr = arr["e"]
                    at_least_once = arr.get("k") == "array" and len(arr.get("elems", [])) >= 1
            exits = []
            rounds = 0
            unstable = False
            while frontier:
                new = []
                for s in frontier:
                    if s.key() not in seen:
                        seen[s.key()] = s
                        new.append(s)
                if not new:
                    break
                rounds += 1
                if rounds > 5:
                    unstable = True
                    e = new[0]
                    grow = [(b, v[0] + "|" + v[1]) for b, v in e.bufs.items() if v != EPS]
                    probs.append("the bracket depth keeps changing from one loop iteration to the next (after %d iterations: %s)" % (rounds - 1, grow[:3]))
                    break
                rb = self.walk(n["body"], new, env, probs)
                exits += rb["break"]
                frontier = [with_idx(strip(unword(s)), True) for s in rb["normal"] + rb["continue"]]
                after_states += frontier
            if at_least_once:
                dd_ = {}
                for s in after_states:
                    dd_[s.key()] = s
                done = list(dd_.values())
            else:
                done = list(seen.values())
            R["normal"] = [unword(s) for s in done + exits]
            return self._dd(R)
        if k == "return":
            cur = states
            if n.get("e") is not None:
                r = self.walk(n["e"], cur, env, probs)
                cur = r["normal"]
            rn_ = self._returned_buffer(n.get("e"))
            for s in cur:
                env["ret"].append((s.copy(dirty=s.dirty - {rn_}) if rn_ in s.dirty else s, n.get("e")))
            return R
        if k == "break":
            R["break"] = states
            return R
        if k == "continue":
            R["continue"] = states
            return R
        if k == "try":
            return self.walk(n["e"], states, env, probs)
        if k == "assign":
            nm = _simple_name(n["l"])
            fc = sir.format_call(n["r"])
            if nm and fc is not None and any(nm in s.bufs for s in states):
                R["normal"] = self._build_into(nm, fc, states, env, probs, R)
                return self._dd(R)
            if nm and n["r"].get("k") == "lit" and n["r"].get("t") == "bool" and nm in env.get("flags", ()):
                R["normal"] = [s.copy(memo=tuple(sorted([(c, v) for c, v in s.memo if c != nm and not re.search(r"\b%s\b" % re.escape(nm), str(c))] + [(nm, bool(n["r"]["v"]))]))) for s in states]
                return R
            r = self.walk(n["r"], states, env, probs)
            rn = sir.root_expr_name(n["l"])
            if rn:
                for st in r:
                    r[st] = [s.copy(memo=tuple((c, v) for c, v in s.memo if not re.search(r"\b%s\b" % re.escape(rn), str(c)))) for s in r[st]]
            if nm:
                src = _simple_name(n["r"])
                r["normal"] = [self._alias(s, nm, src) if src else self._drop(s, nm) for s in r["normal"]]
            return r
        if k == "mcall":
            wf = sir.write_fmt_call(n)
            if wf:
                recv = wf[0]
                R["normal"] = self._pieces(wf[1], states, lambda s: self._target(recv, s), env, probs, R)
                return self._dd(R)
            if n["m"] in ("push_str", "push") and n["args"] and sir.strip_ref(n["args"][0]).get("k") == "lit":
                v = sir.strip_ref(n["args"][0]).get("v")
                if isinstance(v, str):
                    if re.search(r"[()\[\]{}]", v):
                        self.nontrivial.add(self.cur.qual)
                    R["normal"] = [scan(s, v, self._target(n["recv"], s)) for s in states]
                    return R
            if n["m"] == "insert_str" and len(n["args"]) == 2 and sir.strip_ref(n["args"][1]).get("k") == "lit" and isinstance(sir.strip_ref(n["args"][1]).get("v"), str):
                # text put in front of what the buffer holds (`ret.insert_str(0, "Z(")`, closed by a later `)`): for the balance of
                # the finished text only the multiset and nesting of brackets matter, so it is scanned like an append
                v = sir.strip_ref(n["args"][1])["v"]
                if re.search(r"[()\[\]{}]", v):
                    self.nontrivial.add(self.cur.qual)
                outs = []
                for s in states:
                    s2 = scan(s, v, self._target(n["recv"], s))
                    tg = self._target(n["recv"], s)
                    e_ = s2.bufs[tg]
                    s2.bufs[tg] = (e_[0], e_[1], e_[2], "x")   # the old content follows the inserted prefix
                    outs.append(s2)
                R["normal"] = outs
                return R
            if n["m"] == "truncate" and len(n["args"]) == 1 and _simple_name(n["args"][0]):
                out = []
                for s in states:
                    tgt = self._target(n["recv"], s)
                    key_ = "$snap:%s:%s" % (_simple_name(n["args"][0]), tgt)
                    if key_ in s.bufs:
                        s2 = s.copy()
                        s2.bufs[tgt] = s.bufs[key_]
                        out.append(s2)
                    else:
                        out.append(s)
                R["normal"] = out
                return R
            if n["m"] == "push_str" and n["args"]:
                nm = _simple_name(n["args"][0])
                if nm:
                    R["normal"] = [inline(s, self._target(n["recv"], s), s.eff(nm)) if nm in s.bufs else s for s in states]
                    return R
            return self._call(n, n["m"], [n["recv"]] + n["args"], states, env, probs, R)
        if k == "call":
            name = sir.call_path(n) or sir.expr_str(n["f"])
            fc = sir.format_call(n)
            if fc is not None:
                tgt = env.get("hole_target") or (lambda s: "$w")
                R["normal"] = self._pieces(fc, states, tgt, env, probs, R)
                return self._dd(R)
            return self._call(n, name, n["args"], states, env, probs, R)
        cur = states
        for c in sir.children(n):
            r = self.walk(c, cur, env, probs)
            for st in ("return", "break", "continue"):
                R[st] += r[st]
            cur = r["normal"]
        R["normal"] = cur
        return self._dd(R)

    def _drop(self, s, name):
        if name in s.bufs and name != "$w":
            s2 = s.copy()
            del s2.bufs[name]
            return s2
        return s

    def _drop_all(self, s, names, scope_end=False):
        hit = [x for x in names if x in s.bufs and x != "$w"]
        if not hit:
            return s
        s2 = s.copy()
        for x in hit:
            del s2.bufs[x]
            if x in s2.dirty:
                if scope_end and self.cur is not None:
                    self.dropped.setdefault(self.cur.qual, set()).add(x)
                s2.dirty = s2.dirty - {x}
        return s2

    def _shadow(self, states, pat):
        names = set(nm for nm, _p in sir.pat_bindings(pat))
        return [self._drop_all(s, names) for s in states]

    def _alias(self, s, name, src):
        if src in s.bufs and src != "$w":
            s2 = s.copy()
            s2.bufs[name] = s.bufs[src]
            if src in s2.dirty:
                s2.dirty = (s2.dirty - {src}) | {name}
            return s2
        return self._drop(s, name)

    def _dd(self, R):
        for st in R:
            R[st] = dedup(R[st])
        return R

    def _call(self, n, name, args, states, env, probs, R):
        cur = states
        clos = []
        out_bufs = []
        for a in args:
            if a.get("k") == "closure":
                clos.append(a)
            else:
                if a.get("k") == "ref" and a.get("mut"):
                    nm = _simple_name(a)
                    if nm:
                        out_bufs.append(nm)
                r = self.walk(a, cur, env, probs)
                for st in ("return", "break", "continue"):
                    R[st] += r[st]
                cur = r["normal"]
                an = _simple_name(a)
                if an:
                    cur = [s.copy(dirty=s.dirty - {an}) if an in s.dirty else s for s in cur]
        base = name.split("::")[-1]
        if n.get("k") == "call" and n["f"].get("k") == "path" and len(n["f"]["segs"]) == 1:
            v = n["f"]["segs"][0]
            if v in env["closures"]:
                sub = dict(env, ret=[])
                r = self.walk(env["closures"][v]["body"], cur, sub, probs)
                R["normal"] = r["normal"] + [s for s, _e in sub["ret"]]
                return self._dd(R)
            if v in env["cparams"]:
                R["normal"] = cur
                return self._dd(R)
        cands = self.byname.get(base, [])
        # the rule is per function: every emitter is balanced on its own, so a caller takes its callees as balanced text
        # (an unbalanced callee is reported once, at the callee)
        wrote = False
        summ = set()
        for g in cands:
            summ |= self.summary(g)
            self.calls.setdefault(self.cur.qual, set()).add(g.qual)
            if g.qual in self.writers:
                wrote = True
        if wrote:
            self.writers.add(self.cur.qual)
        # a callee that opens or closes brackets for its caller (a non-empty summary) is applied here, so that helper pairs
        # (`open_x()` .. `close_x()`) are balanced where they are used; whether an artefact is balanced is decided at the roots
        if not summ or len(summ) > 4:
            summ = {("", "")}
        tgt_fn = env.get("hole_target")
        out = []
        for s in cur:
            tgt = next((b for b in out_bufs if b in s.bufs), None) or (tgt_fn(s) if tgt_fn else "$w")
            for sm in summ:
                if sm != ("", ""):
                    out.append(inline(s, tgt, (sm[0], sm[1], "", "x"), mark=False))
                else:
                    out.append(inline(s, tgt, ("", "", "", "x"), mark=False) if wrote else s)
        cur = dedup(out)
        for c in clos:
            sub = dict(env, closures=dict(env["closures"]), ret=[])
            sub.pop("hole_target", None)
            r = self.walk(c["body"], cur, sub, probs)
            cur = dedup(r["normal"] + [s for s, _e in sub["ret"]])
        R["normal"] = cur
        return self._dd(R)


def balanced_text(text):
    e, bad = scan_eff(EPS, text)
    if bad:
        return bad
    if e[2]:
        return "ends inside a %s-quoted string" % e[2]
    if e[0] or e[1]:
        return "unbalanced: closes `%s` that it never opened, leaves `%s` open" % (e[0], e[1])
    return None
