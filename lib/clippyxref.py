"""Cross-reference of the site enumerations of the MIR engine with clippy's opt-in restriction lints (thorough tier).

clippy gives no verdict on any property.  It is an *independent, type-resolved enumerator* of the same kinds of sites the
rule packs enumerate from MIR (explicit panics, unwrap/expect, indexing/slicing, iteration over hash containers).  A site
clippy sees and the MIR enumeration does not is a blind spot of the extractor: the pack that relies on the enumeration fails
closed.  The lints are run on /repo's current tree (or VERIF_REPO) and on the positive-control fixture; the fixture must
produce the lints (a lint run that reports nothing there has not run).
"""
import glob, json, os, re, shutil, subprocess

import extract

PANIC_LINTS = ("clippy::unwrap_used", "clippy::expect_used", "clippy::panic", "clippy::unreachable", "clippy::todo",
               "clippy::unimplemented", "clippy::string_slice", "clippy::indexing_slicing")
HASH_LINTS = ("clippy::iter_over_hash_type",)


def _run(cwd, target, pkgs, fp_glob):
    for d in glob.glob(os.path.join(target, "debug", ".fingerprint", fp_glob)):
        shutil.rmtree(d, ignore_errors=True)
    env = extract._env()
    env["CARGO_TARGET_DIR"] = target
    cmd = ["cargo", "+nightly", "clippy", "--offline"]
    for p in pkgs:
        cmd += ["-p", p]
    cmd += ["--lib", "--message-format=json", "--"]
    for l in PANIC_LINTS + HASH_LINTS:
        cmd += ["-W", l]
    r = subprocess.run(cmd, cwd=cwd, env=env, capture_output=True, text=True)
    if r.returncode != 0:
        raise RuntimeError("clippy failed: " + r.stderr[-2000:])
    sites = []
    for line in r.stdout.splitlines():
        if not line.startswith("{"):
            continue
        try:
            m = json.loads(line)
        except ValueError:
            continue
        if m.get("reason") != "compiler-message":
            continue
        msg = m["message"]
        code = (msg.get("code") or {}).get("code")
        if code not in PANIC_LINTS + HASH_LINTS:
            continue
        for s in msg["spans"]:
            if not s["is_primary"]:
                continue
            e = s
            while e.get("expansion"):   # the outermost expansion site: where the macro is written in the crate
                e = e["expansion"]["span"]
            text = (s.get("text") or [{}])[0].get("text", "").strip()
            sites.append({"lint": code, "file": e["file_name"], "line": e["line_start"], "line_end": e["line_end"], "col": e["column_start"], "text": text[:100]})
    return sites


def repo_sites():
    """clippy sites of the two library crates of the analysed tree"""
    target = os.path.join(extract.BUILD, "target-clippy" + ("-scratch" if os.environ.get("VERIF_REPO") else ""))
    return _run(extract.REPO, target, list(extract.CRATES), "glass-easel-*")


def fixture_sites():
    pc = os.path.join(extract.VERIF, "fixtures", "poscontrol")
    return _run(pc, os.path.join(extract.BUILD, "target-clippy-pc"), [], "poscontrol-*")


def norm(path):
    """crate-relative key of a source file: ('template'|'stylesheet'|other, path below src/)"""
    m = re.search(r"(glass-easel-(template|stylesheet)-compiler)/src/(.*)$", path)
    if m:
        return (m.group(2), m.group(3))
    return ("", path.split("/src/")[-1])
