"""Emission sites of the JavaScript generator (write!/format! in proc_gen, group, binding_map), typed through MIR."""
import os, re
import sir

EMITTER_FILES = ("proc_gen/mod.rs", "proc_gen/expr.rs", "proc_gen/tag.rs", "group.rs", "binding_map.rs")
FMT_MACROS = ("write", "writeln", "format")


class Site:
    def __init__(self, file, fn, node, pieces, target, kind):
        self.file = file
        self.fn = fn          # original-view fn node (dict)
        self.node = node      # the macro node
        self.pieces = pieces  # [('lit', text) | ('hole', expr node, spec)]
        self.target = target  # expr node or None (format!)
        self.kind = kind
        self.hole_types = None

    @property
    def line(self):
        return self.node["sp"][0]

    @property
    def where(self):
        return "%s:%d" % (self.file, self.line)

    @property
    def fmt(self):
        return "".join(p[1] if p[0] == "lit" else "{}" for p in self.pieces)

    def holes(self):
        return [p for p in self.pieces if p[0] == "hole"]


def _fns_of_file(f):
    out = []

    def rec(items, test, impl_ty, modpath):
        for it in items or []:
            k = it.get("k")
            t = test or bool(it.get("test"))
            if k == "fn":
                out.append((it, t, impl_ty, None))
            elif k == "impl":
                for ii in it["items"]:
                    if ii.get("k") == "fn":
                        out.append((ii, t or bool(ii.get("test")), sir.self_ty_base(it["self_ty"]), it.get("trait")))
            elif k == "mod":
                rec(it.get("items"), t, impl_ty, modpath + [it["name"]])
    rec(f["items"], False, None, [])
    return out


def collect_sites(orig_ir, repo_prefix="glass-easel-template-compiler/src/", files=EMITTER_FILES):
    sites = []
    for f in orig_ir["files"]:
        path = f["path"]
        rel = path.split(repo_prefix)[-1] if repo_prefix in path else None
        if rel not in files:
            continue
        for fn, is_test, impl_ty, trait in _fns_of_file(f):
            if is_test or not fn.get("body"):
                continue
            if trait and ("Display" in trait or "Debug" in trait or trait.endswith("Write")):
                continue
            fn["_impl"] = impl_ty
            fn["_file"] = path
            pm = sir.parent_map(fn)
            for n in sir.walk(fn["body"], into_items=True):
                if n.get("k") == "mac" and n["name"] in FMT_MACROS:
                    fa = sir.format_args_of(n, resolve_consts=False)   # holes stay holes here: they are matched with the MIR argument types
                    if not fa:
                        continue
                    # not generated code: error messages, and text that is escaped as a whole afterwards
                    skip = False
                    cur = n
                    while id(cur) in pm:
                        cur = pm[id(cur)]
                        if cur.get("k") == "struct" and (cur["path"].endswith("TmplError") or (cur["path"] == "Self" and str(impl_ty or "").endswith("TmplError"))):
                            skip = True
                        if cur.get("k") == "call" and sir.call_name(cur) in ("gen_lit_str",):
                            skip = True
                        if cur.get("k") in ("fn", "closure", "local"):
                            break
                    # `let key = format!(..);` whose every use is `gen_lit_str(&key)`: the text is escaped as a whole afterwards
                    par = pm.get(id(n))
                    hops = 0
                    while par is not None and par.get("k") in ("ref", "paren", "call", "block", "expr") and hops < 4 and par.get("k") != "local":
                        if par.get("k") == "call" and not (sir.call_path(par) or "").endswith(("must_use", "fmt::format")):
                            break
                        par = pm.get(id(par))
                        hops += 1
                    if par is not None and par.get("k") == "local" and par["pat"].get("k") == "p_ident":
                        nm = par["pat"]["name"]
                        uses = [x for x in sir.walk(fn["body"], into_items=True) if x.get("k") == "path" and x.get("segs") == [nm]]
                        def escaped_use(u):
                            c = u
                            for _ in range(3):
                                c = pm.get(id(c))
                                if c is None:
                                    return False
                                if c.get("k") == "call" and sir.call_name(c) == "gen_lit_str":
                                    return True
                                if c.get("k") not in ("ref", "paren", "mcall"):
                                    return False
                            return False
                        if uses and all(escaped_use(u) for u in uses):
                            skip = True
                    if skip:
                        continue
                    target = n["args"][0] if n["name"] in ("write", "writeln") else None
                    sites.append(Site(path, fn, n, fa[0], target, n["name"]))
    return sites


def attach_types(sites, mir, crate="glass_easel_template_compiler"):
    """hole_types[i] = MIR type of the i-th *distinct* formatted argument (placeholder order)."""
    by_file = {}
    for b in mir.bodies:
        if b["crate"] != crate:
            continue
        for c in b["calls"]:
            m = re.search(r"Argument::<[^>]*>::new_(display|debug|lower_hex|upper_hex|lower_exp|pointer)::<(.*)>$", c["generic"])
            if not m:
                continue
            try:
                file, line, col = sir.split_span(c["span"])
            except ValueError:
                continue
            by_file.setdefault(os.path.abspath(file), []).append((line, col, m.group(1), m.group(2)))
    for s in sites:
        sp = s.node["sp"]
        hits = []
        for (line, col, how, ty) in by_file.get(os.path.abspath(s.file), []):
            if (line, col) >= (sp[0], sp[1]) and (line, col) <= (sp[2], sp[3]):
                hits.append((line, col, how, ty))
        hits.sort()
        # nested format macros (format! inside write! args) also land in the span: keep those located inside the
        # format string literal of this macro
        fmt_node = s.node["args"][1] if s.kind in ("write", "writeln") else s.node["args"][0]
        fsp = fmt_node["sp"]
        hits = [h for h in hits if (h[0], h[1]) >= (fsp[0], fsp[1]) and (h[0], h[1]) <= (fsp[2], fsp[3])]
        s.hole_types = [(h[2], h[3]) for h in hits]
    return sites


def distinct_holes(site):
    """holes deduplicated by argument identity, in placeholder order (format_args evaluates each argument once)."""
    seen = []
    out = []
    for p in site.holes():
        key = id(p[1])
        if key in seen:
            continue
        seen.append(key)
        out.append(p)
    return out


def norm_type(t):
    t = re.sub(r"'\w+\s*", "", t)
    t = t.replace("&mut ", "").replace("&", "").strip()
    return t
