"""Dominating conditions ("guards") of every node of a function body, robust against the usual rewrites:
nested ifs / `&&`, early returns (`if !c { ..; return; }` guards everything after it with c), `if let`, `let .. else`,
two-armed matches on Options, closures passed to `Option::map` / `and_then` (their body runs only for `Some`).

guards_of(body) -> {id(node): [Guard]}   Guard = (kind, subject, polarity)
   kind 'cond' : subject = condition expression node, polarity = truth value it has where the node runs
   kind 'pat'  : subject = (scrutinee node, pattern string), polarity True = the pattern matched
   kind 'map'  : subject = receiver node of `.map(|x| ..)` / `.and_then(..)`: the closure body runs iff the receiver is Some
"""
import sir


def _diverges(block):
    if block is None:
        return False
    if block.get("k") != "block":
        return block.get("k") in ("return", "break", "continue") or sir.is_panic_node(block)
    if not block["stmts"]:
        return False
    last = block["stmts"][-1]
    e = last.get("e") if last.get("k") == "expr" else last
    if e is None:
        return False
    if e.get("k") in ("return", "break", "continue") or sir.is_panic_node(e):
        return True
    if e.get("k") == "block":
        return _diverges(e)
    if e.get("k") == "if" and e.get("else") is not None:
        return _diverges(e["then"]) and _diverges(e["else"])
    return False


def _pat_guards(scrut, pat, pol):
    """guards expressed by `pat` matching (pol True) / not matching (pol False) `scrut`; a tuple pattern over a tuple expression
    is split into one guard per element when it matched"""
    sc = scrut
    while sc.get("k") in ("paren", "ref"):
        sc = sc["e"]
    if pol and pat.get("k") == "p_tuple" and sc.get("k") == "tuple" and len(pat["elems"]) == len(sc["elems"]) and not any(e.get("k") == "p_rest" for e in pat["elems"]):
        out = []
        for pe, ee in zip(pat["elems"], sc["elems"]):
            while pe.get("k") == "p_ref":
                pe = pe["pat"]
            if pe.get("k") == "p_wild":
                continue
            if pe.get("k") == "p_lit" and pe["e"].get("t") == "bool":
                out += _conj(ee, bool(pe["e"]["v"]))
            elif pe.get("k") == "p_ident" and pe["name"] in ("true", "false") and not pe.get("sub"):
                out += _conj(ee, pe["name"] == "true")
            else:
                out += _pat_guards(ee, pe, True)
        return out
    return [("pat", (scrut, sir.pat_str(pat)), pol)]


def _conj(c, pol):
    """split `a && b` (pol True) / `a || b` (pol False) into atoms"""
    if c.get("k") == "paren":
        return _conj(c["e"], pol)
    if c.get("k") == "unary" and c.get("op") == "!":
        return _conj(c["e"], not pol)
    if c.get("k") == "binary" and ((c.get("op") == "&&" and pol) or (c.get("op") == "||" and not pol)):
        return _conj(c["l"], pol) + _conj(c["r"], pol)
    if c.get("k") == "let":
        return _pat_guards(c["e"], c["pat"], pol)
    return [("cond", c, pol)]


def guards_of(body):
    out = {}

    def mark(n, g):
        out[id(n)] = list(g)

    def rec(n, g):
        if not isinstance(n, dict):
            return
        mark(n, g)
        k = n.get("k")
        if k == "block":
            cur = list(g)
            for st in n["stmts"]:
                rec(st, cur)
                e = st.get("e") if st.get("k") == "expr" else None
                if e is not None and e.get("k") == "if" and e.get("else") is None and _diverges(e["then"]):
                    cur = cur + _conj(e["cond"], False) if len(_conj(e["cond"], True)) == 1 or e["cond"].get("k") != "binary" else cur + [("cond", e["cond"], False)]
                elif e is not None and e.get("k") == "if" and e.get("else") is not None and _diverges(e["then"]) and not _diverges(e["else"]):
                    cur = cur + [("cond", e["cond"], False)] if e["cond"].get("k") != "let" else cur + [("pat", (e["cond"]["e"], sir.pat_str(e["cond"]["pat"])), False)]
                elif e is not None and e.get("k") == "if" and e.get("else") is not None and _diverges(e["else"]) and not _diverges(e["then"]):
                    cur = cur + _conj(e["cond"], True)
                if st.get("k") == "local" and st.get("else") is not None and st.get("init") is not None:
                    cur = cur + [("pat", (st["init"], sir.pat_str(st["pat"])), True)]
                # `let x = match e { Some(v) => .., None => return }` / a match statement with diverging arms: what follows runs
                # only for the arms that come back
                mt = st.get("init") if st.get("k") == "local" and st.get("init") is not None else e
                if mt is not None and mt.get("k") == "match" and all(a.get("guard") is None for a in mt["arms"]):
                    div = [a for a in mt["arms"] if _diverges(a["body"])]
                    back = [a for a in mt["arms"] if not _diverges(a["body"])]
                    if div and len(back) == 1:
                        cur = cur + [("pat", (mt["e"], sir.pat_str(back[0]["pat"])), True)]
                    elif len(div) == 1 and back:
                        cur = cur + [("pat", (mt["e"], sir.pat_str(div[0]["pat"])), False)]
                elif mt is not None and mt.get("k") == "match":
                    # some arms carry guards: an *unguarded* arm that leaves still tells that its pattern did not match afterwards
                    for a in mt["arms"]:
                        if a.get("guard") is None and _diverges(a["body"]) and a["pat"].get("k") != "p_wild":
                            cur = cur + [("pat", (mt["e"], sir.pat_str(a["pat"])), False)]
            return
        if k == "if":
            c = n["cond"]
            rec(c["e"] if c.get("k") == "let" else c, g)
            rec(n["then"], g + _conj(c, True))
            if n.get("else") is not None:
                ge = g + (_conj(c, False) if len(_conj(c, False)) >= 1 and not (c.get("k") == "binary" and c.get("op") == "&&") else [("cond", c, False)])
                rec(n["else"], ge)
            return
        if k == "match":
            rec(n["e"], g)
            failed = []   # (pattern text, guard) of earlier guarded arms: a later arm with the same pattern runs only if that guard failed
            for a in n["arms"]:
                ga = g + _pat_guards(n["e"], a["pat"], True)
                ps_ = sir.pat_str(a["pat"])
                for fp, fg in failed:
                    if fp == ps_ or a["pat"].get("k") == "p_wild":
                        ga = ga + _conj(fg, False) if len(_conj(fg, False)) == 1 else ga + [("cond", fg, False)]
                if a.get("guard") is not None:
                    failed.append((ps_, a["guard"]))
                mark(a, ga)
                if a.get("guard") is not None:
                    rec(a["guard"], ga)
                    ga = ga + _conj(a["guard"], True)
                rec(a["body"], ga)
            return
        if k == "mcall" and n["m"] in ("map", "and_then", "map_or", "map_or_else", "inspect") and any(a.get("k") == "closure" for a in n["args"]):
            rec(n["recv"], g)
            for a in n["args"]:
                if a.get("k") == "closure":
                    mark(a, g)
                    rec(a["body"], g + [("map", n["recv"], True)])
                else:
                    rec(a, g)
            return
        if k == "local":
            if n.get("init") is not None:
                rec(n["init"], g)
            if n.get("else") is not None:
                rec(n["else"], g + [("pat", (n["init"], sir.pat_str(n["pat"])), False)])
            return
        for c in sir.children(n):
            rec(c, g)
    rec(body, [])
    return out


def derived_names(body, needle):
    """names of locals / pattern bindings / closure parameters whose value comes from an expression mentioning `needle`"""
    names = set()
    changed = True
    rounds = 0

    def mentions(e):
        s = sir.expr_str(e)
        if needle in s:
            return True
        return any(x.get("k") == "path" and len(x["segs"]) == 1 and x["segs"][0] in names for x in sir.walk(e))
    while changed and rounds < 4:
        changed = False
        rounds += 1
        for n in sir.walk(body):
            new = []
            if n.get("k") == "local" and n.get("init") is not None and mentions(n["init"]):
                new = [b for b, _ in sir.pat_bindings(n["pat"])]
            elif n.get("k") == "if" and n["cond"].get("k") == "let" and mentions(n["cond"]["e"]):
                new = [b for b, _ in sir.pat_bindings(n["cond"]["pat"])]
            elif n.get("k") == "match" and mentions(n["e"]):
                new = [b for a in n["arms"] for b, _ in sir.pat_bindings(a["pat"])]
            elif n.get("k") == "mcall" and n["m"] in ("map", "and_then", "map_or", "inspect") and mentions(n["recv"]):
                for a in n["args"]:
                    if a.get("k") == "closure":
                        new += [b for pp in a["params"] for b, _ in sir.pat_bindings(pp)]
            for b in new:
                if b not in names and b not in ("None", "Some"):
                    names.add(b)
                    changed = True
    return names


def truth_of_flag(gs, name):
    """value of the boolean variable `name` implied by the guards: True / False / None"""
    val = None
    for kind, subj, pol in gs:
        if kind == "cond" and subj.get("k") == "path" and len(subj["segs"]) == 1 and subj["segs"][0] == name:
            val = pol
    return val


def option_state(gs, mentions):
    """'some' / 'none' / None: what the guards say about the Option-valued expression recognised by mentions(expr)"""
    st = None
    for kind, subj, pol in gs:
        if kind == "cond":
            c = subj
            if c.get("k") == "mcall" and c["m"] in ("is_some", "is_none") and mentions(c["recv"]):
                some = (c["m"] == "is_some") == pol
                st = "some" if some else "none"
        elif kind == "pat":
            e, pat = subj
            if mentions(e):
                if pat.startswith("Some"):
                    st = "some" if pol else "none"
                elif pat.startswith("None"):
                    st = "none" if pol else "some"
        elif kind == "map":
            if mentions(subj):
                st = "some"
    return st
