"""Separator-flag discipline of list emitters (C03.lists): a boolean local that decides whether a `,` is written before the next
element must, after every path through the loop body, agree with what the buffer now ends with."""
import sir


def find_flags(fn):
    """[(flag name, buffer expr string, loop node)] for boolean locals used as `if FLAG { write(buf, ",") }` inside a loop."""
    out = []
    flags = {}
    for n in sir.walk(fn.body):
        if n.get("k") == "local" and n["pat"].get("k") == "p_ident" and n["pat"].get("mut") and n.get("init") is not None and n["init"].get("k") == "lit" and n["init"].get("t") == "bool":
            flags[n["pat"]["name"]] = n["init"]["v"]
    for lp in sir.walk(fn.body):
        if lp.get("k") not in ("for", "while", "loop"):
            continue
        for n in sir.walk(lp["body"]):
            if n.get("k") == "if" and n["cond"].get("k") == "path" and n["cond"]["s"] in flags:
                for x in sir.walk(n["then"]):
                    wf = sir.write_fmt_call(x)
                    if wf and wf[1] == [("lit", ",")]:
                        buf = sir.expr_str(sir.strip_ref(wf[0]))
                        key = (n["cond"]["s"], buf, id(lp))
                        if key not in [(a, b, id(c)) for a, b, c in out]:
                            out.append((n["cond"]["s"], buf, lp))
    return out


class Path:
    __slots__ = ("pre", "text", "post", "done")

    def __init__(self, pre=None, text="", post=None, done=False):
        self.pre, self.text, self.post, self.done = pre, text, post, done

    def copy(self):
        return Path(self.pre, self.text, self.post, self.done)


def _emit_text(n, buf):
    """text a single expression node appends to `buf` (None if it does not touch it)"""
    wf = sir.write_fmt_call(n)
    if wf:
        if sir.expr_str(sir.strip_ref(wf[0])) != buf:
            return None
        return "".join(p[1] if p[0] == "lit" else "\x00" for p in wf[1])
    if n.get("k") in ("mcall", "call"):
        for a in n.get("args", []):
            if a.get("k") == "ref" and a.get("mut") and sir.expr_str(a["e"]) == buf:
                return "\x01"
            if a.get("k") == "path" and a["s"] == buf and n.get("k") == "mcall" and n["m"] not in ("push", "len"):
                return "\x01"
    return None


def run_paths(node, flag, buf, paths):
    """advance every live path through `node`"""
    k = node.get("k")
    if k == "block":
        for s in node["stmts"]:
            paths = run_paths(s, flag, buf, paths)
        return paths
    if k == "expr":
        return run_paths(node["e"], flag, buf, paths)
    if k == "local":
        if node.get("init") is not None:
            paths = run_paths(node["init"], flag, buf, paths)
        return paths
    if k == "try":
        return run_paths(node["e"], flag, buf, paths)
    if k == "if":
        cond = node["cond"]
        out = []
        is_flag = cond.get("k") == "path" and cond["s"] == flag
        is_nflag = cond.get("k") == "unary" and cond["op"] == "!" and cond["e"].get("k") == "path" and cond["e"]["s"] == flag
        if not (is_flag or is_nflag):
            c = cond["e"] if cond.get("k") == "let" else cond
            paths = run_paths(c, flag, buf, paths)
        live = [p for p in paths if not p.done]
        dead = [p for p in paths if p.done]
        for p in live:
            cur = p.post if p.post is not None else p.pre
            for branch_val, br in ((True, node["then"]), (False, node.get("else"))):
                if is_flag or is_nflag:
                    want = branch_val if is_flag else (not branch_val)
                    if cur is not None and cur != want:
                        continue
                    q = p.copy()
                    if cur is None:
                        if q.post is None:
                            q.pre = want
                    if br is not None:
                        out.extend(run_paths(br, flag, buf, [q]))
                    else:
                        out.append(q)
                else:
                    q = p.copy()
                    if br is not None:
                        out.extend(run_paths(br, flag, buf, [q]))
                    else:
                        out.append(q)
        return dead + out
    if k == "match":
        paths = run_paths(node["e"], flag, buf, paths)
        live = [p for p in paths if not p.done]
        dead = [p for p in paths if p.done]
        out = []
        for a in node["arms"]:
            out.extend(run_paths(a["body"], flag, buf, [p.copy() for p in live]))
        return dead + out
    if k in ("continue", "break", "return"):
        for p in paths:
            if not p.done:
                p.done = k
        return paths
    if k == "assign" and node["l"].get("k") == "path" and node["l"]["s"] == flag:
        v = node["r"].get("v") if node["r"].get("k") == "lit" else None
        for p in paths:
            if not p.done:
                p.post = v if v is not None else "?"
        return paths
    if k in ("for", "while", "loop", "closure", "item"):
        # nested loops/closures: if they touch the buffer we give up on precision for this path
        if any(_emit_text(x, buf) is not None for x in sir.walk(node)):
            for p in paths:
                if not p.done:
                    p.text += "\x02"
        return paths
    if k == "mcall" and node["m"] in ("push_str", "push", "write_str", "write_char") and len(node["args"]) == 1 and sir.expr_str(sir.strip_ref(node["recv"])) == buf:
        a = sir.strip_ref(node["args"][0])
        while a.get("k") == "paren":
            a = sir.strip_ref(a["e"])
        if a.get("k") == "if" and a.get("else") is not None:
            # `buf.push_str(if c { "x" } else { "y" })` is `if c { buf.push_str("x") } else { buf.push_str("y") }`
            def arm(br):
                tail = br
                while tail.get("k") == "block" and len(tail["stmts"]) == 1 and tail["stmts"][0].get("k") == "expr":
                    tail = tail["stmts"][0]["e"]
                m2 = dict(node)
                m2["args"] = [tail]
                return {"k": "block", "stmts": [{"k": "expr", "e": m2, "semi": True}]}
            return run_paths({"k": "if", "cond": a["cond"], "then": arm(a["then"]), "else": arm(a["else"])}, flag, buf, paths)
    t = _emit_text(node, buf)
    if t is not None:
        # arguments are evaluated first (they may emit as well)
        for p in paths:
            if not p.done:
                p.text += t
        return paths
    for c in sir.children(node):
        paths = run_paths(c, flag, buf, paths)
    return paths


def check_flag(fn, flag, buf, loop):
    """-> list of (ok, description) per path through the loop body"""
    res = []
    paths = run_paths(loop["body"], flag, buf, [Path()])
    for p in paths:
        if not p.text:
            continue
        if p.done in ("break", "return"):
            # the loop is left: the flag is not consulted again for this list
            continue
        txt = p.text
        last = txt[-1]
        if last == "\x02":
            res.append((True, "path with nested emission (not decided): %r" % txt))
            continue
        ends_elem = last in "\x00\x01)]}" or last.isalnum() or last in "\"'"
        ends_open = last in ",([{"
        post = p.post if p.post is not None else p.pre
        desc = "path pre=%s emits %r then flag=%s" % (p.pre, txt.replace("\x00", "{}").replace("\x01", "<value>"), "unchanged(%s)" % p.pre if p.post is None else p.post)
        if ends_elem:
            ok = post is True
        elif ends_open:
            ok = post is False
        else:
            ok = True
        res.append((ok, desc))
    return res
