"""Extraction of the four operator tables (parser chain, level tables, generator arms, printer arms)
and the reference ECMA-262 table they are compared with."""
import json, os, re
import sir
from exprmodel import ExprModel, find_expression_matches, arm_table, bound_fields

REFS = os.path.join(os.path.dirname(os.path.dirname(os.path.abspath(__file__))), "refs")


def load_ref(name):
    return json.load(open(os.path.join(REFS, name)))


# ------------------------------------------------------------------ level enum

def level_order(tc):
    en = tc.enum("ExpressionLevel")
    if en is None:
        raise LookupError("enum ExpressionLevel not found")
    return [v["name"] for v in en["variants"]]


def level_tables(tc, model):
    """functions mapping every Expression variant to an ExpressionLevel path -> {fn qual: {variant: level}}"""
    out = {}
    for f in tc.fns:
        if not f.body:
            continue
        for m, vs in find_expression_matches(f, model, 40):
            ok = True
            table = {}
            for a in m["arms"]:
                b = a["body"]
                if b.get("k") == "block" and len(b["stmts"]) == 1 and b["stmts"][0].get("k") == "expr":
                    b = b["stmts"][0]["e"]
                if b.get("k") == "path" and len(b["segs"]) >= 2 and (b["segs"][-2] == "ExpressionLevel" or (b["segs"][-2] == "Self" and f.base == "ExpressionLevel")):
                    for v in sir.pat_variants(a["pat"]):
                        table[v] = b["segs"][-1]
                else:
                    ok = False
                    break
            if ok and len(table) >= 40:
                out[f.qual] = (f, table)
    return out


# ------------------------------------------------------------------ parser chain

def operator_consumers(tc):
    """ParseOperator::<name> -> {'token', 'excepts', 'kind': 'str'|'word'|'custom'}"""
    out = {}
    for f in tc.fns:
        if f.base != "ParseOperator" or not f.body:
            continue
        info = {"fn": f, "token": None, "excepts": None, "kind": "custom", "extra": []}
        calls = [n for n in sir.walk(f.body) if n.get("k") == "mcall" and n["m"] in ("consume_str_except_followed", "consume_str_except_followed_char", "consume_str")]
        if not calls and any(x.get("k") == "path" and len(x["segs"]) >= 2 and x["segs"][-2] in ("ParseOperator", "Self") and x["segs"][-1].replace("r#", "") != f.name
                             and any(g.base == "ParseOperator" and g.name == x["segs"][-1].replace("r#", "") for g in tc.fns) for x in sir.walk(f.node, into_items=True)):
            continue   # a dispatcher over other consumers (a table of probes): it reads no token itself
        if calls:
            c = calls[0]
            if c["args"] and c["args"][0].get("k") == "lit":
                info["token"] = c["args"][0]["v"]
            if c["m"] == "consume_str_except_followed" and len(c["args"]) > 1 and c["args"][1].get("k") == "array":
                info["excepts"] = [e.get("v") for e in c["args"][1]["elems"]]
                info["kind"] = "str"
            elif c["m"] == "consume_str_except_followed_char":
                info["excepts"] = [sir.expr_str(c["args"][1])] if len(c["args"]) > 1 else []
                info["kind"] = "word"
            elif c["m"] == "consume_str":
                info["excepts"] = []
                info["kind"] = "str"
            stmts = f.body["stmts"]
            simple = len(stmts) == 1 and stmts[0].get("k") == "expr" and stmts[0]["e"] is c
            if not simple:
                info["extra"] = [sir.expr_str(x) for x in calls[1:]]
                info["kind"] = info["kind"] + "+custom"
        out[f.name] = info
    return out


def parser_levels(tc, model):
    """Left-to-right level functions: fn -> {'next': callee level fn, 'ops': [(consumer, Variant)], 'loop': bool}"""
    levels = {}
    for f in tc.fns:
        if f.base != "Expression" or not f.body or not f.name.startswith("parse"):
            continue
        ops = []
        nexts = set()
        loops = [n for n in sir.walk(f.body) if n.get("k") == "loop"]
        for n in sir.walk(f.body):
            if n.get("k") == "if" and n["cond"].get("k") == "let":
                e = n["cond"]["e"]
                if e.get("k") == "call" and (sir.call_path(e) or "").startswith("ParseOperator::"):
                    consumer = e["f"]["segs"][-1]
                    variant = None
                    operands = []
                    for x in sir.walk(n["then"]):
                        if x.get("k") == "struct" and len(x["segs"]) >= 2 and x["segs"][-2] in ("Expression", "Self") and x["segs"][-1] in model.children["Expression"]:
                            variant = x["segs"][-1]
                        if x.get("k") == "call" and (sir.call_path(x) or "").startswith("Self::parse"):
                            operands.append(x["f"]["segs"][-1])
                    if variant:
                        in_loop = any(any(y is n for y in sir.walk(l)) for l in loops)
                        ops.append({"consumer": consumer, "variant": variant, "operands": operands, "in_loop": in_loop})
        for x in sir.walk(f.body):
            if x.get("k") == "call" and (sir.call_path(x) or "").startswith("Self::parse"):
                nexts.add(x["f"]["segs"][-1])
        if ops:
            levels[f.name] = {"fn": f, "ops": ops, "calls": sorted(nexts)}
    return levels


def parser_chain(levels, start):
    """Follow the 'first operand' call from the entry level down; returns ordered list of level fn names
    (loosest first) restricted to functions that consume binary operators."""
    chain = []
    cur = start
    seen = set()
    while cur in levels and cur not in seen:
        seen.add(cur)
        chain.append(cur)
        # the next level is the callee used for operands that is not the level itself
        nxt = [c for c in levels[cur]["calls"] if c != cur and c != start]
        # prefer the callee that is itself a level
        cand = [c for c in nxt if c in levels]
        if not cand:
            break
        cur = cand[0]
    return chain


# ------------------------------------------------------------------ arm events (generator / printer)

def _level_arg(call_args):
    for a in call_args:
        if a.get("k") == "path" and len(a["segs"]) >= 2 and a["segs"][-2] == "ExpressionLevel":
            return a["segs"][-1]
    return None


def _refers(n, name):
    n = sir.strip_ref(n)
    while isinstance(n, dict) and n.get("k") in ("unary", "ref"):
        n = n["e"]
    return isinstance(n, dict) and n.get("k") == "path" and n["s"] == name


def _variant_literal(body, e, variant):
    """`e` is a local bound to `match <expr> { Variant{..} => "lit", .., _ => "lit" }`: the literal chosen for `variant`"""
    e = sir.strip_ref(e)
    if not (e.get("k") == "path" and len(e["segs"]) == 1) or variant is None:
        return None
    for st in sir.walk(body):
        if st.get("k") == "local" and st["pat"].get("name") == e["segs"][0] and st.get("init") is not None and st["init"].get("k") == "match":
            default = None
            for a in st["init"]["arms"]:
                b = a["body"]
                if not (b.get("k") == "lit" and b.get("t") == "str"):
                    return None
                if a["pat"].get("k") == "p_wild":
                    default = b["v"]
                elif variant in sir.pat_variants(a["pat"]):
                    return b["v"]
            return default
    return None


def _unroll_for(n, body, names, variant):
    """`for (sep, loc, child) in [(\"?\", l1, a), (\":\", l2, b)] { write(sep); print(child, Level) }` -> the events of each round"""
    it = sir.strip_ref(n["e"])
    if it.get("k") == "path" and len(it["segs"]) == 1:
        for st in sir.walk(body):
            if st.get("k") == "local" and st["pat"].get("name") == it["segs"][0] and st.get("init") is not None:
                it = sir.strip_ref(st["init"])
                break
    if it.get("k") == "mcall" and it["m"] in ("iter", "into_iter") and not it["args"]:
        it = sir.strip_ref(it["recv"])
    if it.get("k") != "array" or not it.get("elems") or not all(e.get("k") == "tuple" for e in it["elems"]):
        return None
    pat = n.get("pat")
    if pat is None or pat.get("k") != "p_tuple" or not all(p.get("k") == "p_ident" for p in pat["elems"]):
        return None
    pn = [p["name"] for p in pat["elems"]]
    out = []
    for tup in it["elems"]:
        if len(tup["elems"]) != len(pn):
            return None
        amap = dict(zip(pn, tup["elems"]))
        for x in sir.walk(n["body"]):
            if x.get("k") == "call":
                lvl = _level_arg(x["args"])
                if lvl:
                    for a in x["args"]:
                        a_ = sir.strip_ref(a)
                        if a_.get("k") == "path" and a_.get("s") in amap:
                            tgt = sir.strip_ref(amap[a_["s"]])
                            if tgt.get("k") == "path" and tgt.get("s") in names:
                                out.append(("child", tgt["s"], lvl, sir.call_path(x) or "?"))
            elif x.get("k") == "mcall" and x["m"] in ("write_token", "write_str") and x["args"]:
                a_ = sir.strip_ref(x["args"][0])
                tgtw = sir.expr_str(sir.strip_ref(x["recv"]))
                if a_.get("k") == "lit" and a_.get("t") == "str":
                    out.append(("lit", a_["v"], tgtw))
                elif a_.get("k") == "path" and a_.get("s") in amap and sir.strip_ref(amap[a_["s"]]).get("k") == "lit":
                    out.append(("lit", sir.strip_ref(amap[a_["s"]])["v"], tgtw))
    return out or None


INDEX = None  # set by the harness: the crate index, used to look through private helpers


def _helper_level(method):
    """(level, inner method) if every function called `method` generates `self` through one generator call with an explicit level"""
    if INDEX is None:
        return None
    cands = [f for f in INDEX.fns if f.name == method and f.body and f.base == "Expression"]
    res = set()
    for f in cands:
        inner = [(x, _level_arg(x["args"])) for x in sir.walk(f.body) if x.get("k") == "mcall" and sir.expr_str(sir.strip_ref(x["recv"])) == "self" and _level_arg(x["args"])]
        if len(inner) != 1:
            return None
        res.add((inner[0][1], inner[0][0]["m"]))
    return list(res)[0] if len(res) == 1 else None


def _helper_events(g, pn):
    """events of a helper body, in source order; text written from a parameter is ('litparam', param, target)"""
    ev = []
    names = set(x for x in pn if x)
    for n in sir.walk(g.body):
        k = n.get("k")
        if k == "mcall":
            lvl = _level_arg(n["args"])
            recv = sir.strip_ref(n["recv"])
            if lvl and recv.get("k") == "path" and recv["s"] in names:
                ev.append(("child", recv["s"], lvl, n["m"]))
                continue
            if n["m"] in ("write_token", "write_str") and n["args"]:
                a = sir.strip_ref(n["args"][0])
                tgt = sir.expr_str(sir.strip_ref(n["recv"]))
                if a.get("k") == "lit" and a.get("t") == "str":
                    ev.append(("lit", a["v"], tgt))
                elif a.get("k") == "path" and a.get("s") in names:
                    ev.append(("litparam", a["s"], tgt))
        elif k == "call":
            lvl = _level_arg(n["args"])
            if lvl:
                for a in n["args"]:
                    for nm in names:
                        if _refers(a, nm):
                            ev.append(("child", nm, lvl, sir.call_path(n) or "?"))
    return ev


def arm_events(body, names, variant=None):
    """Source-order events of an arm: ('child', binding, level, via) for calls that generate/print a child with an
    explicit ExpressionLevel, ('lit', text) for literal text written. `names` = binding names of the child fields."""
    ev = []
    skip = set()
    for n in sir.walk(body):
        if id(n) in skip:
            continue
        k = n.get("k")
        if k == "for":
            un = _unroll_for(n, body, names, variant)
            if un is not None:
                ev.extend(un)
                for x in sir.walk(n):
                    skip.add(id(x))
                continue
        if k == "mcall":
            lvl = _level_arg(n["args"])
            recv = sir.strip_ref(n["recv"])
            if lvl and recv.get("k") == "path" and recv["s"] in names:
                ev.append(("child", recv["s"], lvl, n["m"]))
                continue
            if not lvl and recv.get("k") == "path" and recv["s"] in names:
                # a private helper that generates `self` at a fixed level (extracting one is not a change of behaviour)
                h = _helper_level(n["m"])
                if h:
                    ev.append(("child", recv["s"], h[0], h[1]))
                    continue
            wf = sir.write_fmt_call(n)
            if wf:
                _t, pieces = wf
                tgt = sir.expr_str(sir.strip_ref(_t))
                for p in pieces:
                    if p[0] == "lit":
                        ev.append(("lit", p[1], tgt))
                    else:
                        vl = _variant_literal(body, p[1], variant) if isinstance(p[1], dict) else None
                        if vl is not None:
                            ev.append(("lit", vl, tgt))
                        else:
                            ev.append(("hole", sir.expr_str(p[1]), tgt))
                continue
            if n["m"] in ("write_token", "write_str") and n["args"] and n["args"][0].get("k") == "lit" and n["args"][0].get("t") == "str":
                ev.append(("lit", n["args"][0]["v"], sir.expr_str(sir.strip_ref(n["recv"]))))
                continue
            if n["m"] in ("write_token", "write_str") and n["args"]:
                vl = _variant_literal(body, n["args"][0], variant)
                if vl is not None:
                    ev.append(("lit", vl, sir.expr_str(sir.strip_ref(n["recv"]))))
                    continue
        elif k == "call":
            lvl = _level_arg(n["args"])
            if not lvl and INDEX is not None:
                # a private helper that prints `<operator text> <child at a fixed level>`: replay its events with this call's arguments
                hs = [g for g in INDEX.fns if g.name == (sir.call_name(n) or "") and g.body and not g.base]
                if len(hs) == 1 and not getattr(arm_events, "_busy", False):
                    g = hs[0]
                    pn = [x for x in g.param_names()]
                    if len(pn) == len(n["args"]):
                        amap = dict(zip(pn, n["args"]))
                        arm_events._busy = True
                        try:
                            sub = arm_events(g.body, set(x for x in pn if x))
                            # literal text handed over as a parameter
                            for x in sir.walk(g.body):
                                pass
                        finally:
                            arm_events._busy = False
                        out_ev = []
                        okh = bool(sub)
                        for e_ in _helper_events(g, pn):
                            if e_[0] == "child":
                                a_ = sir.strip_ref(amap.get(e_[1], {}))
                                nm_ = a_.get("s") if a_.get("k") == "path" else None
                                if nm_ in names:
                                    out_ev.append(("child", nm_, e_[2], e_[3]))
                                # other parameters mentioned in the printer call (the writer itself, ..) are not children
                            elif e_[0] == "litparam":
                                a_ = sir.strip_ref(amap.get(e_[1], {}))
                                if a_.get("k") == "lit" and a_.get("t") == "str":
                                    out_ev.append(("lit", a_["v"], e_[2]))
                                else:
                                    okh = False
                            else:
                                out_ev.append(e_)
                        if okh and any(x[0] == "child" for x in out_ev):
                            ev.extend(out_ev)
                            continue
            if lvl:
                for a in n["args"]:
                    for nm in names:
                        if _refers(a, nm):
                            ev.append(("child", nm, lvl, sir.call_path(n) or "?"))
    return ev


def main_expression_fn(tc, model, module_hint, need_level_arg=True):
    """The function of module `module_hint` with a match over >=40 Expression variants whose arms pass ExpressionLevel
    arguments (the generator / the printer)."""
    best = None
    for f in tc.fns:
        if not f.body or module_hint not in f.module:
            continue
        ms = find_expression_matches(f, model, 40)
        if not ms:
            continue
        m = ms[0][0]
        n_lvl = sum(1 for x in sir.walk(m) if x.get("k") in ("call", "mcall") and _level_arg(x["args"]))
        if n_lvl >= 30:
            if best is None or n_lvl > best[2]:
                best = (f, m, n_lvl)
    return best


def skeleton_tokens(text):
    """operator tokens at bracket depth 0 of an emitted fragment sequence ('\x00' marks a hole)."""
    depth = 0
    i = 0
    out = []
    n = len(text)
    instr = None
    while i < n:
        c = text[i]
        if instr:
            if c == "\\":
                i += 2
                continue
            if c == instr:
                instr = None
            i += 1
            continue
        if c in "\"'":
            instr = c
            i += 1
            continue
        if c in "([{":
            depth += 1
        elif c in ")]}":
            depth -= 1
        elif depth == 0:
            for tok in (">>>", "===", "!==", "<<", ">>", "<=", ">=", "==", "!=", "&&", "||", "??", "?", ":", "*", "/", "%", "+", "-", "<", ">", "&", "^", "|", "!", "~", ",", "="):
                if text.startswith(tok, i):
                    out.append(tok)
                    i += len(tok) - 1
                    break
            else:
                m = re.match(r"(typeof|void|instanceof|in|new|delete)\b", text[i:])
                if m and (i == 0 or not (text[i - 1].isalnum() or text[i - 1] in "_$.")):
                    out.append(m.group(1))
                    i += len(m.group(1)) - 1
        i += 1
    return out
