"""Progress analysis of parser loops (C01.progress).

A small abstract interpretation over the structured syntax tree. The abstract state of one control-flow path is
(advanced, nonempty, tags):
    advanced = the input cursor has certainly moved since the loop head / function entry
    nonempty = the rest of the input is known to be non-empty (set by a successful peek / `!ended()` test, cleared by an advance)
    tags     = outcome (some/none) of cursor calls whose result was stored in a local, so that a later test of that local
               selects the right states; `@pred` tags record that a character predicate held for the peeked character
Every loop must reach its back edge only in states with advanced == True. Callee effects come from summaries computed to a
least fixpoint:
    ALWAYS        every normal return has advanced (given a non-empty input at entry)
    IF_SOME       every return of Some(..)/Ok(..)/true/non-empty has advanced
    (IF_SOME, p)  as IF_SOME, and the only non-advancing returns happen when the character predicate p rejects the peeked char
    NEVER         no guarantee
"""
import sir

ALWAYS, IF_SOME, NEVER = "ALWAYS", "IF_SOME", "NEVER"
ORDER = {NEVER: 0, IF_SOME: 1, ALWAYS: 2}


def base(summ):
    return summ[0] if isinstance(summ, tuple) else summ


class Config:
    def __init__(self, cursor_names, primitives, wrappers, peeks, ended, token_readers):
        self.cursor_names = cursor_names
        self.primitives = primitives
        self.wrappers = wrappers
        self.peeks = peeks
        self.ended = ended
        self.token_readers = token_readers


TEMPLATE = Config(
    cursor_names={"ps", "self", "state"},
    primitives={
        "next": IF_SOME, "skip_bytes": ALWAYS, "next_char_as_str": ALWAYS, "skip_until_before": NEVER, "skip_until_after": IF_SOME,
        "consume_str": IF_SOME, "consume_str_except_followed": IF_SOME, "consume_str_except_followed_char": IF_SOME,
        "skip_whitespace": IF_SOME, "skip_whitespace_with_js_comments": IF_SOME,
    },
    wrappers={"try_parse", "parse_on_auto_whitespace", "parse_off_auto_whitespace"},
    peeks={"peek", "peek_n", "peek_str", "peek_chars"},
    ended={"ended"},
    token_readers={"next"},
)

CSS = Config(
    cursor_names={"input", "nested_input", "parser", "self"},
    primitives={
        "next": IF_SOME, "next_including_whitespace": IF_SOME, "next_including_whitespace_and_comments": IF_SOME,
        "expect_string_cloned": IF_SOME, "expect_colon": IF_SOME, "expect_ident": IF_SOME, "expect_string": IF_SOME,
        "parse_nested_block": ALWAYS,
    },
    wrappers={"try_parse"},
    peeks={"peek", "peek_including_whitespace"},
    ended={"is_exhausted"},
    token_readers={"next", "next_including_whitespace"},
)

NEUTRAL = {"position", "cur_index", "code_slice", "add_warning", "add_warning_at_current_position", "cur_str", "state", "reset",
           "current_source_location", "new_error_for_next_token", "new_custom_error", "skip_whitespace_css", "warnings", "take_warnings"}
LOOK_THROUGH = {"unwrap", "is_some", "is_none", "is_ok", "is_err", "ok", "map", "unwrap_or", "unwrap_or_default", "unwrap_or_else", "or_else",
                "and_then", "cloned", "as_ref", "clone", "map_err", "expect"}


class St:
    __slots__ = ("adv", "ne", "tags")

    def __init__(self, adv=False, ne=False, tags=()):
        self.adv, self.ne, self.tags = adv, ne, tuple(tags)

    def key(self):
        return (self.adv, self.ne, self.tags)

    def tag(self, var, outcome):
        t = tuple(x for x in self.tags if x[0] != var) + ((var, outcome),)
        return St(self.adv, self.ne, tuple(sorted(t)))

    def untag(self, var):
        return St(self.adv, self.ne, tuple(x for x in self.tags if x[0] != var))

    def outcome(self, var):
        for v, o in self.tags:
            if v == var:
                return o
        return None

    def with_(self, adv=None, ne=None):
        return St(self.adv if adv is None else adv, self.ne if ne is None else ne, self.tags)


def uniq(states):
    seen = {}
    for s in states:
        seen[s.key()] = s
    return list(seen.values())


class Flow:
    def __init__(self):
        self.fall = []
        self.cont = []
        self.brk = []
        self.ret_some = []
        self.ret_none = []


class Analyzer:
    def __init__(self, idx, cfg, module_filter):
        self.idx = idx
        self.cfg = cfg
        self.fns = [f for f in idx.fns if f.body and module_filter(f)]
        self.by_name = {}
        for f in self.fns:
            self.by_name.setdefault(f.name, []).append(f)
        self.summary = {f.qual: NEVER for f in self.fns}
        self.cur_fn = None
        self.summary_under = {}  # (qual, pred) -> summary when the peeked character satisfies pred and the input is non-empty
        self.preds = set()
        for f in self.fns:
            if f.ret == "bool" and len(f.params) == 1 and (f.params[0].get("ty") or "") == "char":
                self.preds.add(f.name)

    # ------------------------------------------------------------ summaries of calls
    def callee_summary(self, n):
        cfg = self.cfg
        k = n.get("k")
        if k == "mcall":
            recv = sir.root_expr_name(n["recv"])
            m = n["m"]
            direct = n["recv"].get("k") == "path" or sir.expr_str(n["recv"]) in ("self.parser",)
            if recv in cfg.cursor_names and direct:
                if m in cfg.primitives:
                    return cfg.primitives[m]
                if m in cfg.wrappers:
                    clo = [a for a in n["args"] if a.get("k") == "closure"]
                    if not clo:
                        return NEVER
                    return self.closure_summary(clo[-1])
                if m in cfg.peeks or m in cfg.ended or m in NEUTRAL or m == "skip_whitespace" and cfg is CSS:
                    return None
                cands = [f for f in self.by_name.get(m, []) if f.params and f.params[0].get("self")]
                if cands:
                    return self.worst([self.summary.get(f.qual, NEVER) for f in cands])
                return None
            if m in ("find_map", "and_then", "map_while") and len(n["args"]) == 1 and n["args"][0].get("k") == "closure" and \
                    any(x.get("k") == "path" and len(x["segs"]) == 1 and x["segs"][0] in cfg.cursor_names for x in sir.walk(n["args"][0]["body"])):
                # Some(..) comes from an invocation of the closure that returned Some
                cs_ = self.closure_summary(n["args"][0])
                return IF_SOME if base(cs_) in (ALWAYS, IF_SOME) else NEVER
            if any(self.is_cursor_arg(a) for a in n["args"]):
                cands = self.by_name.get(m, [])
                if cands:
                    return self.worst([self.summary.get(f.qual, NEVER) for f in cands])
                return NEVER
            return None
        if k == "call":
            if not any(self.is_cursor_arg(a) for a in n["args"]):
                return None
            f = n["f"]
            if f.get("k") != "path":
                return NEVER
            name = f["segs"][-1]
            cands = self.by_name.get(name, [])
            if not cands and len(f["segs"]) == 1 and self.cur_fn is not None:
                # a call through a local (`probe(ps)` with `probe` taken from a table of functions): the functions of the crate
                # that the enclosing function names as values are the possible callees
                called = set(id(x["f"]) for x in sir.walk(self.cur_fn.node, into_items=True) if x.get("k") == "call")
                vals = []
                for x in sir.walk(self.cur_fn.node, into_items=True):
                    if x.get("k") == "path" and id(x) not in called and len(x["segs"]) >= 2:
                        cs_ = [c for c in self.by_name.get(x["segs"][-1].replace("r#", ""), []) if self.takes_cursor(c) and (c.base == x["segs"][-2] or x["segs"][-2] == "Self")]
                        vals += cs_
                if vals:
                    return self.worst([self.summary.get(c.qual, NEVER) for c in vals])
            if len(f["segs"]) >= 2 and cands:
                b = f["segs"][-2]
                exact = [c for c in cands if c.base == b or b == "Self"]
                cands = exact or cands
            if cands:
                return self.worst([self.summary.get(c.qual, NEVER) for c in cands])
            return NEVER
        return None

    def _positive_const(self, a, depth=0):
        """the expression is a named constant known to be a positive length: `const N: usize = 5`, `const N: usize = TEXT.len()`,
        `TEXT.len()` / `"lit".len()` with a non-empty text"""
        a = sir.strip_ref(a)
        if a.get("k") == "mcall" and a["m"] == "len" and not a["args"]:
            r = sir.strip_ref(a["recv"])
            if r.get("k") == "lit" and r.get("t") == "str":
                return len(r["v"]) > 0
            t = sir.const_text(r)
            return t is not None and len(t) > 0
        if a.get("k") == "path" and depth < 3:
            c = self.idx.const(a["segs"][-1]) if hasattr(self.idx, "const") else None
            e = (c or {}).get("e")
            if e is None:
                return False
            if e.get("k") == "lit" and str(e.get("v", "0")).split("usize")[0].isdigit():
                return int(str(e["v"]).split("usize")[0]) > 0
            return self._positive_const(e, depth + 1)
        return False

    def is_cursor_arg(self, a):
        a = sir.strip_ref(a)
        return a.get("k") == "path" and a["s"] in self.cfg.cursor_names

    @staticmethod
    def worst(ss):
        if not ss:
            return NEVER
        if len(ss) == 1:
            return ss[0]
        if all(base(s) == ALWAYS for s in ss):
            return ALWAYS
        if all(base(s) in (ALWAYS, IF_SOME) for s in ss):
            return IF_SOME
        return NEVER

    def closure_summary(self, clo):
        fl = Flow()
        if clo["body"].get("k") == "block":
            self._flow(clo["body"], [St()], fl)
        else:
            fl.fall = self.flow_value(clo["body"], [St()], fl, "@ret")
        somes, nones = self.split_value(clo["body"], fl.fall)
        somes += fl.ret_some
        nones += fl.ret_none
        if (somes or nones) and all(s.adv for s in somes + nones):
            return ALWAYS
        if somes and all(s.adv for s in somes):
            return IF_SOME
        return NEVER

    def takes_cursor(self, f):
        for p in f.params:
            if p.get("self"):
                if f.base in ("ParseState", "StepParser"):
                    return True
                continue
            pat = p.get("pat") or {}
            if pat.get("name") in self.cfg.cursor_names and any(t in (p.get("ty") or "") for t in ("ParseState", "StepParser", "Parser")):
                return True
        return False

    def compute_summaries(self, rounds=16):
        for _ in range(rounds):
            changed = False
            for f in self.fns:
                if not self.takes_cursor(f):
                    continue
                self.cur_fn = f
                for pr in sorted(self.guard_preds_used()):
                    fl3 = Flow()
                    self._flow(f.body, [St(False, True, (("@" + pr, "some"),))], fl3)
                    s3, n3 = self.split_value(f.body, fl3.fall)
                    all3 = s3 + n3 + fl3.ret_some + fl3.ret_none
                    if all3 and all(x.adv for x in all3) and self.summary_under.get((f.qual, pr)) != ALWAYS:
                        self.summary_under[(f.qual, pr)] = ALWAYS
                        changed = True
                new = self.summarise(f)
                old = self.summary[f.qual]
                if ORDER[base(new)] > ORDER[base(old)] or (ORDER[base(new)] == ORDER[base(old)] and isinstance(new, tuple) and not isinstance(old, tuple)):
                    self.summary[f.qual] = new
                    changed = True
            if not changed:
                break

    def summarise(self, f):
        self.cur_fn = f
        fl = Flow()
        self._flow(f.body, [St()], fl)
        somes, nones = self.split_value(f.body, fl.fall)
        somes += fl.ret_some
        nones += fl.ret_none
        res = NEVER
        if somes and all(s.adv for s in somes):
            res = IF_SOME
        fl2 = Flow()
        self._flow(f.body, [St(False, True)], fl2)
        s2, n2 = self.split_value(f.body, fl2.fall)
        allst = s2 + n2 + fl2.ret_some + fl2.ret_none
        if allst and all(s.adv for s in allst):
            return ALWAYS
        if res == IF_SOME:
            g = self.guard_pred(f)
            if g:
                # with the predicate known to hold and a non-empty input every return must have advanced
                fl3 = Flow()
                self._flow(f.body, [St(False, True, (("@" + g, "some"),))], fl3)
                s3, n3 = self.split_value(f.body, fl3.fall)
                all3 = s3 + n3 + fl3.ret_some + fl3.ret_none
                if all3 and all(s.adv for s in all3):
                    return (IF_SOME, g)
        return res

    def guard_preds_used(self):
        if not hasattr(self, "_gpu"):
            self._gpu = set()
            for f in self.fns:
                g = self.guard_pred(f)
                if g:
                    self._gpu.add(g)
        return self._gpu

    def callee_fns(self, n):
        k = n.get("k")
        if k == "mcall":
            if n["recv"].get("k") != "path" and not any(self.is_cursor_arg(a) for a in n["args"]):
                return []
            if sir.root_expr_name(n["recv"]) in self.cfg.cursor_names and n["m"] in self.cfg.primitives:
                return []
            return [f for f in self.by_name.get(n["m"], []) if self.takes_cursor(f)]
        if k == "call" and n["f"].get("k") == "path":
            name = n["f"]["segs"][-1]
            cands = [f for f in self.by_name.get(name, []) if self.takes_cursor(f)]
            if len(n["f"]["segs"]) >= 2 and cands:
                b = n["f"]["segs"][-2]
                cands = [c for c in cands if c.base == b or b == "Self"] or cands
            return cands
        return []

    def guard_pred(self, f):
        """name of a char predicate tested on the peeked character in an early-return guard of f"""
        for st in f.body["stmts"][:4]:
            for n in sir.walk(st):
                if n.get("k") == "if":
                    for x in sir.walk(n["cond"]):
                        if x.get("k") == "call" and sir.call_name(x) in self.preds:
                            return sir.call_name(x)
        return None

    # ------------------------------------------------------------ value classification
    @staticmethod
    def value_class(e):
        s = sir.expr_str(e)
        if s in ("None", "False") or s.startswith("Err("):
            return "none"
        if (e.get("k") == "mac" and e["name"] == "vec" and not (e.get("raw") or "").strip()) or s.endswith("Vec::new()"):
            return "none"
        if s.startswith("Some(") or s.startswith("Ok(") or s == "True":
            return "some"
        return "unknown"

    def split_value(self, e, states):
        """states after evaluating e for its value -> (states where the value is some-ish, states where none-ish).
        `states` are the states *after* e was evaluated by _flow (fall-through)."""
        if not states:
            return [], []
        k = e.get("k")
        if k == "block":
            if not e["stmts"]:
                return list(states), list(states)
            last = e["stmts"][-1]
            if last.get("k") == "expr" and not last.get("semi"):
                return self.split_value(last["e"], states)
            return list(states), []
        cls = self.value_class(e)
        if cls == "none":
            return [], list(states)
        if cls == "some":
            return list(states), []
        # tail call of a cursor function: outcome tagged by _flow
        somes = [s for s in states if s.outcome("@ret") == "some"]
        nones = [s for s in states if s.outcome("@ret") == "none"]
        rest = [s for s in states if s.outcome("@ret") is None]
        return somes + rest, nones + rest

    # ------------------------------------------------------------ helpers
    def cursor_call(self, e):
        """-> (call node, forced outcome) for the cursor call producing the value of e (through ?, unwrap, .ok(), refs)"""
        forced = None
        e = sir.strip_ref(e)
        while True:
            if e.get("k") == "try":
                forced = "some"
                e = e["e"]
                continue
            if e.get("k") == "mcall" and e["m"] in LOOK_THROUGH and self.callee_summary(e) is None:
                if e["m"] in ("unwrap", "expect"):
                    forced = "some"
                e = e["recv"]
                continue
            break
        if e.get("k") in ("call", "mcall") and self.callee_summary(e) is not None:
            return e, forced
        return None, None

    def is_peek(self, e):
        e = sir.strip_ref(e)
        while e.get("k") == "try":
            e = e["e"]
        return e.get("k") == "mcall" and e["m"] in self.cfg.peeks and sir.root_expr_name(e["recv"]) in self.cfg.cursor_names

    def apply_call(self, n, states, branch=None):
        summ = self.callee_summary(n)
        if summ is None:
            return states
        if n.get("k") == "mcall" and n["m"] in self.cfg.wrappers and sir.root_expr_name(n["recv"]) in self.cfg.cursor_names:
            clo = [a for a in n["args"] if a.get("k") == "closure"]
            if clo:
                # inline the closure with the caller's states (it inherits what is known about the input)
                sub = Flow()
                body = clo[-1]["body"]
                if body.get("k") == "block":
                    self._flow(body, [s.untag("@ret") for s in states], sub)
                else:
                    sub.fall = self.flow_value(body, [s.untag("@ret") for s in states], sub, "@ret")
                somes, nones = self.split_value(body, sub.fall)
                somes = [s.untag("@ret") for s in somes + sub.ret_some]
                nones = [s.untag("@ret") for s in nones + sub.ret_none]
                if n["m"] == "try_parse":
                    nones = list(states) if nones else []  # the cursor is restored when the closure fails
                if branch == "some":
                    return uniq(somes)
                if branch == "none":
                    return uniq(nones)
                return uniq(somes + nones)
        guarded = None
        if isinstance(summ, tuple):
            guarded = summ[1]
            summ = IF_SOME
        out = []
        under = {}
        for fn in self.callee_fns(n):
            for (q, pr), sm in self.summary_under.items():
                if q == fn.qual:
                    under.setdefault(pr, []).append(sm)
        n_cands = len(self.callee_fns(n))
        for s in states:
            hit = False
            for pr, sms in under.items():
                if s.ne and s.outcome("@" + pr) == "some" and len(sms) == n_cands and all(x == ALWAYS for x in sms):
                    out.append(s.with_(adv=True, ne=False))
                    hit = True
                    break
            if hit:
                continue
            if summ == ALWAYS:
                if n.get("k") == "mcall" and n["m"] == "skip_bytes" and n["args"] and n["args"][0].get("k") == "lit" and n["args"][0].get("v") == "0":
                    out.append(s)
                elif n.get("k") == "mcall" and n["m"] == "skip_bytes":
                    a0 = n["args"][0] if n["args"] else {}
                    if (a0.get("k") == "lit" and str(a0.get("v", "0")).isdigit() and int(a0["v"]) > 0) or self._positive_const(a0):
                        out.append(s.with_(adv=True, ne=False))
                    else:
                        out.append(s)
                        out.append(s.with_(adv=True, ne=False))
                elif not s.ne and not s.adv:
                    out.append(s.with_(ne=False))
                    out.append(s.with_(adv=True, ne=False))
                else:
                    out.append(s.with_(adv=True, ne=False))
            elif summ == IF_SOME:
                if guarded and s.outcome("@" + guarded) == "some" and s.ne:
                    out.append(s.with_(adv=True, ne=False))
                elif branch == "some":
                    out.append(s.with_(adv=True, ne=False))
                elif branch == "none":
                    if n.get("k") == "mcall" and n["m"] in self.cfg.token_readers and s.ne:
                        continue  # a token reader cannot fail on non-empty input
                    out.append(s)
                elif n.get("k") == "mcall" and n["m"] in self.cfg.token_readers and s.ne:
                    out.append(s.with_(adv=True, ne=False))
                else:
                    out.append(s)
                    out.append(s.with_(adv=True, ne=False))
            else:
                out.append(s)
        return uniq(out)

    def call_with_args(self, call, states, fl, branch=None):
        st = states
        if call.get("k") == "mcall" and self.cursor_call(call["recv"])[0] is not None:
            sub = Flow()
            self._flow(call["recv"], st, sub)
            self._merge(fl, sub)
            st = sub.fall
        for a in call.get("args", []):
            if a.get("k") != "closure":
                sub = Flow()
                self._flow(a, st, sub)
                self._merge(fl, sub)
                st = sub.fall
        return self.apply_call(call, st, branch)

    def outcomes(self, e, states, fl):
        """evaluate a cursor-call expression -> (states if some, states if none)"""
        c, forced = self.cursor_call(e)
        a = self.call_with_args(c, states, fl, "some")
        b = self.call_with_args(c, states, Flow(), "none")
        return a, b

    def cond_effects(self, cond, states, fl):
        k = cond.get("k")
        # `matches!(e, PAT)` (expanded: `match e { PAT => true, _ => false }`) is `let PAT = e`
        if k == "mac" and cond.get("name") == "matches" and cond.get("e") is not None and cond.get("pat") is not None and cond.get("guard") is None:
            return self.cond_effects({"k": "let", "pat": cond["pat"], "e": cond["e"], "sp": cond.get("sp", [0, 0, 0, 0])}, states, fl)
        if k == "match" and len(cond["arms"]) == 2 and all(a.get("guard") is None and a["body"].get("k") == "lit" and a["body"].get("t") == "bool" for a in cond["arms"]) \
                and cond["arms"][1]["pat"].get("k") == "p_wild" and cond["arms"][0]["body"]["v"] != cond["arms"][1]["body"]["v"]:
            t, f = self.cond_effects({"k": "let", "pat": cond["arms"][0]["pat"], "e": cond["e"], "sp": cond.get("sp", [0, 0, 0, 0])}, states, fl)
            return (t, f) if cond["arms"][0]["body"]["v"] is True else (f, t)
        if k == "paren":
            return self.cond_effects(cond["e"], states, fl)
        if k == "let":
            e = cond["e"]
            ps = sir.pat_str(cond["pat"])
            pat_some = ps.startswith(("Some", "Ok"))
            pat_none = ps.startswith(("None", "Err"))
            if self.is_peek(e):
                t = uniq([s.with_(ne=True) for s in states])
                f = [s for s in states if not s.ne]
                return (t, f) if pat_some else (f, t) if pat_none else (states, states)
            es = sir.strip_ref(e)
            if es.get("k") == "path" and len(es["segs"]) == 1 and any(s.outcome(es["s"]) for s in states):
                v = es["s"]
                somes = [s for s in states if s.outcome(v) in ("some", None)]
                nones = [s for s in states if s.outcome(v) in ("none", None)]
                return (somes, nones) if pat_some else (nones, somes) if pat_none else (states, states)
            c, forced = self.cursor_call(e)
            if c is not None:
                a, b = self.outcomes(e, states, fl)
                if pat_some:
                    return a, b
                if pat_none:
                    return b, a
                return uniq(a + b), uniq(a + b)
            st = self.eval(e, states, fl)
            return st, st
        if k == "unary" and cond["op"] == "!":
            t, f = self.cond_effects(cond["e"], states, fl)
            return f, t
        if k == "binary" and cond["op"] == "||":
            t1, f1 = self.cond_effects(cond["l"], states, fl)
            t2, f2 = self.cond_effects(cond["r"], f1, fl)
            return uniq(t1 + t2), f2
        if k == "binary" and cond["op"] == "&&":
            t1, f1 = self.cond_effects(cond["l"], states, fl)
            t2, f2 = self.cond_effects(cond["r"], t1, fl)
            return t2, uniq(f1 + f2)
        if k == "mcall" and cond["m"] in self.cfg.ended and sir.root_expr_name(cond["recv"]) in self.cfg.cursor_names:
            return states, uniq([s.with_(ne=True) for s in states])
        if k == "mcall" and cond["m"] in ("is_some", "is_ok", "is_none", "is_err"):
            inner = sir.strip_ref(cond["recv"])
            pos = cond["m"] in ("is_some", "is_ok")
            if self.is_peek(inner):
                t = uniq([s.with_(ne=True) for s in states])
                return (t, states) if pos else (states, t)
            if inner.get("k") == "path" and len(inner["segs"]) == 1 and any(s.outcome(inner["s"]) for s in states):
                v = inner["s"]
                somes = [s for s in states if s.outcome(v) in ("some", None)]
                nones = [s for s in states if s.outcome(v) in ("none", None)]
                return (somes, nones) if pos else (nones, somes)
            c, _f = self.cursor_call(inner)
            if c is not None:
                a, b = self.outcomes(inner, states, fl)
                return (a, b) if pos else (b, a)
        if self.is_peek(cond):
            return uniq([s.with_(ne=True) for s in states]), states
        if k == "path" and len(cond.get("segs", [])) == 1 and any(s.outcome(cond["segs"][0]) for s in states):
            # a boolean result of a cursor function that was bound to a local first
            v = cond["segs"][0]
            return [s for s in states if s.outcome(v) in ("some", None)], [s for s in states if s.outcome(v) in ("none", None)]
        if k == "binary" and cond["op"] in ("==", "!="):
            for side, other in ((cond["l"], cond["r"]), (cond["r"], cond["l"])):
                if self.is_peek(side) and sir.expr_str(other).startswith("Some"):
                    t = uniq([s.with_(ne=True) for s in states])
                    return (t, states) if cond["op"] == "==" else (states, t)
        if k == "call" and sir.call_name(cond) in self.preds:
            p = "@" + sir.call_name(cond)
            t = [s.tag(p, "some") for s in states if s.outcome(p) in (None, "some")]
            f = [s.tag(p, "none") for s in states if s.outcome(p) in (None, "none")]
            return uniq(t), uniq(f)
        c, _f = self.cursor_call(cond)
        if c is not None:
            return self.outcomes(cond, states, fl)
        st = self.eval(cond, states, fl)
        return st, st

    def eval(self, e, states, fl):
        sub = Flow()
        self._flow(e, states, sub)
        self._merge(fl, sub)
        return sub.fall

    def _merge(self, fl, sub):
        fl.cont += sub.cont
        fl.brk += sub.brk
        fl.ret_some += sub.ret_some
        fl.ret_none += sub.ret_none

    def flow_value(self, e, states, fl, tag):
        """evaluate e; if its value is the outcome of a cursor call, tag the resulting states with (tag -> some/none)"""
        c, forced = self.cursor_call(e)
        inner = sir.strip_ref(e)
        direct = c is not None and (inner is c or (inner.get("k") == "mcall" and inner["m"] in ("ok", "map", "map_err", "cloned") and sir.strip_ref(inner["recv"]) is c) or (inner.get("k") == "try"))
        if c is not None and direct and base(self.callee_summary(c)) == IF_SOME:
            if forced == "some":
                a = self.call_with_args(c, states, fl, "some")
                if inner.get("k") == "try":
                    fl.ret_none += self.call_with_args(c, states, Flow(), "none")
                return uniq(a)
            a = self.call_with_args(c, states, fl, "some")
            b = self.call_with_args(c, states, Flow(), "none")
            return uniq([s.tag(tag, "some") for s in a] + [s.tag(tag, "none") for s in b])
        if inner.get("k") in ("if", "match", "block"):
            # value produced by branches: tag per branch through split_value on each branch is too fine; evaluate and classify
            st = self.eval(e, states, fl)
            return st
        return self.eval(e, states, fl)

    # ------------------------------------------------------------ the flow function
    def _flow(self, n, states, fl):
        states = uniq(states)
        if not states:
            fl.fall = []
            return
        k = n.get("k")
        if k == "block":
            cur = states
            stmts = n["stmts"]
            for i, st in enumerate(stmts):
                sub = Flow()
                last_value = i == len(stmts) - 1 and st.get("k") == "expr" and not st.get("semi")
                if last_value:
                    cur2 = self.flow_value(st["e"], cur, sub, "@ret") if self.cursor_call(st["e"])[0] is not None else None
                    if cur2 is None:
                        self._flow(st["e"], cur, sub)
                        cur2 = sub.fall
                        cls = self.value_class(st["e"])
                        if cls in ("some", "none"):
                            cur2 = [x.tag("@ret", cls) for x in cur2]
                        elif st["e"].get("k") not in ("if", "match", "block", "loop"):
                            cur2 = [x.untag("@ret") for x in cur2]
                    self._merge(fl, sub)
                    cur = uniq(cur2)
                else:
                    self._flow(st, cur, sub)
                    self._merge(fl, sub)
                    cur = uniq([x.untag("@ret") for x in sub.fall])
                if not cur:
                    break
            fl.fall = cur
            return
        if k == "expr":
            self._flow(n["e"], states, fl)
            return
        if k == "item":
            fl.fall = states
            return
        if k == "local":
            init = n.get("init")
            if init is None:
                fl.fall = states
                return
            els = n.get("else")
            name = n["pat"].get("name") if n["pat"].get("k") == "p_ident" else None
            if els is not None:
                ps = sir.pat_str(n["pat"])
                pat_some = ps.startswith(("Some", "Ok"))
                if self.is_peek(init) and pat_some:
                    ok = uniq([s.with_(ne=True) for s in states])
                    bad = [s for s in states if not s.ne]  # a peek cannot fail on non-empty input
                else:
                    c, _f = self.cursor_call(init)
                    ist = sir.strip_ref(init)
                    if c is not None and pat_some:
                        ok, bad = self.outcomes(init, states, fl)
                    elif ist.get("k") == "path" and len(ist["segs"]) == 1 and any(s.outcome(ist["s"]) for s in states) and pat_some:
                        v = ist["s"]
                        ok = [s for s in states if s.outcome(v) in ("some", None)]
                        bad = [s for s in states if s.outcome(v) in ("none", None)]
                    else:
                        ok = bad = self.eval(init, states, fl)
                sub = Flow()
                self._flow(els, bad, sub)
                self._merge(fl, sub)
                fl.fall = uniq(ok + sub.fall)
                return
            if name is not None:
                fl.fall = uniq([s for s in self.flow_value(init, [s.untag(name) for s in states], fl, name)])
            else:
                fl.fall = self.eval(init, states, fl)
            return
        if k == "if":
            t, f = self.cond_effects(n["cond"], states, fl)
            s1 = Flow()
            self._flow(n["then"], t, s1)
            self._merge(fl, s1)
            out = list(s1.fall)
            if n.get("else") is not None:
                s2 = Flow()
                self._flow(n["else"], f, s2)
                self._merge(fl, s2)
                out += s2.fall
            else:
                out += f
            fl.fall = uniq(out)
            return
        if k == "match":
            scrut = n["e"]
            sc = sir.strip_ref(scrut)
            peek = self.is_peek(scrut)
            if peek and sc.get("k") == "try":
                # `match ps.peek()? { 'a' => .., _ => .. }`: the arms see the character itself, the input is non-empty in all of them
                states = self.eval(sc, states, fl)
                peek = False
                scrut = sc = {"k": "lit", "t": "char", "v": "?", "sp": sc.get("sp", [0, 0, 0, 0])}
            c, forced = (None, None) if peek else self.cursor_call(scrut)
            tagvar = sc["s"] if sc.get("k") == "path" and len(sc["segs"]) == 1 and any(s.outcome(sc["s"]) for s in states) else None
            if peek or tagvar:
                pre = states
                some_st = none_st = None
            elif c is not None:
                some_st, none_st = self.outcomes(scrut, states, fl)
                pre = None
            else:
                pre = self.eval(scrut, states, fl)
                some_st = none_st = None
            out = []
            for a in n["arms"]:
                ps = sir.pat_str(a["pat"])
                is_some = ps.startswith(("Some", "Ok"))
                is_none = ps.startswith(("None", "Err"))
                if peek:
                    ast = uniq([s.with_(ne=True) for s in pre]) if is_some else ([s for s in pre if not s.ne] if is_none else pre)
                elif tagvar:
                    if is_some:
                        ast = [s for s in pre if s.outcome(tagvar) in ("some", None)]
                    elif is_none:
                        ast = [s for s in pre if s.outcome(tagvar) in ("none", None)]
                    else:
                        ast = pre
                elif c is not None:
                    if forced == "some" or is_some:
                        ast = some_st
                    elif is_none:
                        ast = none_st
                    else:
                        ast = uniq(some_st + none_st)
                else:
                    ast = pre
                if a.get("guard") is not None:
                    gt, _gf = self.cond_effects(a["guard"], ast, fl)
                    ast = gt
                sub = Flow()
                body = a["body"]
                if body.get("k") != "block":
                    # `pat => call(ps)` : the arm's value is the match's value - same treatment as the tail expression of a block
                    body = {"k": "block", "stmts": [{"k": "expr", "e": body, "semi": False, "sp": body.get("sp", [0, 0, 0, 0])}], "sp": body.get("sp", [0, 0, 0, 0])}
                self._flow(body, ast, sub)
                self._merge(fl, sub)
                out += sub.fall
            fl.fall = uniq(out)
            return
        if k in ("loop", "while", "for"):
            body_in = states
            exit_states = []
            if getattr(self, "_record", None) is not None:
                self._record.setdefault(id(n), []).extend(states)
            if k == "while":
                t, f = self.cond_effects(n["cond"], states, fl)
                body_in = t
                exit_states = list(f)
            elif k == "for":
                body_in = self.eval(n["e"], states, fl)
                exit_states = list(body_in)
            sub = Flow()
            self._flow(n["body"], body_in, sub)
            fl.ret_some += sub.ret_some
            fl.ret_none += sub.ret_none
            after = exit_states + sub.brk
            back = uniq(sub.fall + sub.cont)
            if back:
                b_in = back
                if k == "while":
                    t, f = self.cond_effects(n["cond"], back, Flow())
                    b_in = t
                    after += f
                elif k == "for":
                    after += back
                more = Flow()
                self._flow(n["body"], b_in, more)
                after += more.brk
                fl.ret_some += more.ret_some
                fl.ret_none += more.ret_none
            fl.fall = uniq(after)
            return
        if k == "break":
            st = states
            if n.get("e") is not None:
                st = self.eval(n["e"], states, fl)
            fl.brk += st
            fl.fall = []
            return
        if k == "continue":
            fl.cont += states
            fl.fall = []
            return
        if k == "return":
            e = n.get("e")
            if e is None:
                fl.ret_some += states
                fl.ret_none += states
                fl.fall = []
                return
            sub = Flow()
            st = self.flow_value(e, states, sub, "@ret")
            self._merge(fl, sub)
            somes, nones = self.split_value(e, st)
            fl.ret_some += somes
            fl.ret_none += nones
            fl.fall = []
            return
        if k == "try":
            inner = n["e"]
            if self.is_peek(inner):
                fl.ret_none += [s for s in states if not s.ne]
                fl.fall = uniq([s.with_(ne=True) for s in states])
                return
            ist = sir.strip_ref(inner)
            if ist.get("k") == "path" and len(ist["segs"]) == 1 and any(s.outcome(ist["s"]) for s in states):
                v = ist["s"]
                fl.ret_none += [s for s in states if s.outcome(v) in ("none", None)]
                fl.fall = [s for s in states if s.outcome(v) in ("some", None)]
                return
            c, _f = self.cursor_call(inner)
            if c is not None:
                a, b = self.outcomes(inner, states, fl)
                fl.ret_none += b
                fl.fall = a
                return
            st = self.eval(inner, states, fl)
            fl.ret_none += st
            fl.fall = st
            return
        if k == "closure":
            fl.fall = states
            return
        if k in ("call", "mcall"):
            c, forced = self.cursor_call(n)
            if c is not None and c is not n:
                # e.g. ps.next().unwrap(), ps.consume_str(..).is_none()
                if forced == "some":
                    fl.fall = self.call_with_args(c, states, fl, "some")
                else:
                    fl.fall = self.call_with_args(c, states, fl, None)
                return
            st = states
            if k == "mcall":
                st = self.eval(n["recv"], st, fl)
            for a in n["args"]:
                if a.get("k") == "closure":
                    continue
                st = self.eval(a, st, fl)
            summ = self.callee_summary(n)
            if summ is not None:
                st = self.apply_call(n, st)
            else:
                for a in n["args"]:
                    if a.get("k") == "closure" and any(x.get("k") == "path" and x["s"] in self.cfg.cursor_names for x in sir.walk(a["body"])):
                        sub = Flow()
                        self._flow(a["body"], st, sub)
                        st = uniq(st + sub.fall + sub.ret_some + sub.ret_none)
            fl.fall = uniq(st)
            return
        if k == "mac":
            st = states
            for a in n.get("args") or []:
                st = self.eval(a, st, fl)
            if sir.is_panic_node(n) in ("panic", "unreachable", "todo"):
                fl.fall = []
                return
            fl.fall = st
            return
        st = states
        for ch in sir.children(n):
            st = self.eval(ch, st, fl)
            if not st:
                break
        fl.fall = uniq(st)

    # ------------------------------------------------------------ loops
    def finite_loop(self, lp):
        if lp.get("k") == "for":
            return True
        if lp.get("k") == "while" and lp["cond"].get("k") == "let":
            e = sir.strip_ref(lp["cond"]["e"])
            if e.get("k") == "mcall" and e["m"] in ("pop", "pop_front", "next") and sir.root_expr_name(e["recv"]) not in self.cfg.cursor_names:
                return True
        if lp.get("k") == "loop" and lp["body"].get("k") == "block" and lp["body"]["stmts"]:
            # `loop { let Some(x) = it.next() else { break }; .. }` over an iterator that is not the input cursor: a `while let` in disguise
            st = lp["body"]["stmts"][0]
            if st.get("k") == "local" and st.get("else") is not None and st.get("init") is not None:
                e = sir.strip_ref(st["init"])
                leaves = any(x.get("k") in ("break", "return") for x in sir.walk(st["else"]))
                if e.get("k") == "mcall" and e["m"] in ("pop", "pop_front", "next") and not e["args"] and sir.root_expr_name(e["recv"]) not in self.cfg.cursor_names and leaves:
                    return True
        return False

    def check_loops(self):
        out = []
        for f in self.fns:
            uses = self.takes_cursor(f) or any(x.get("k") == "closure" and any((p.get("name") in self.cfg.cursor_names) for p in x["params"]) for x in sir.walk(f.body))
            if not uses:
                continue
            # states with which each loop is entered (context of the enclosing function; closures are inlined by the wrappers)
            self._record = {}
            self.cur_fn = f
            fl0 = Flow()
            self._flow(f.body, [St()], fl0)
            for clo in sir.walk(f.body):
                if clo.get("k") == "closure" and any(x.get("k") in ("loop", "while") and id(x) not in self._record for x in sir.walk(clo["body"])):
                    self._flow(clo["body"], [St()], Flow())
            record = self._record
            self._record = None
            k = 0
            for lp in sir.walk(f.body):
                if lp.get("k") not in ("loop", "while", "for"):
                    continue
                touches = any((x.get("k") in ("call", "mcall")) and (self.callee_summary(x) is not None or self.is_peek(x)) for x in sir.walk(lp))
                if not touches or self.finite_loop(lp):
                    continue
                k += 1
                entry = uniq([St(False, s.ne, tuple(t for t in s.tags if t[0].startswith("@") and t[0] != "@ret")) for s in record.get(id(lp), [St()])]) or [St()]
                seen = {}
                work = list(entry)
                back_all = []
                rounds = 0
                while work and rounds < 6:
                    rounds += 1
                    fl = Flow()
                    start = work
                    if lp.get("k") == "while":
                        t, _f = self.cond_effects(lp["cond"], start, fl)
                        start = t
                    self._flow(lp["body"], start, fl)
                    back = uniq(fl.fall + fl.cont)
                    back_all += back
                    work = []
                    for s in back:
                        nxt = St(False, s.ne, tuple(t for t in s.tags if t[0].startswith("@") and t[0] != "@ret"))
                        if nxt.key() not in seen and s.adv:
                            seen[nxt.key()] = 1
                            work.append(nxt)
                bad = [s for s in back_all if not s.adv]
                calls = sorted(set((x["m"] if x.get("k") == "mcall" else (sir.call_path(x) or "?")) for x in sir.walk(lp)
                                   if x.get("k") in ("call", "mcall") and self.callee_summary(x) is not None))
                out.append({"fn": f, "index": k, "kind": lp["k"], "ok": not bad, "back_states": sorted(set((s.adv, s.ne) for s in back_all)),
                            "entry": sorted(set((s.adv, s.ne) for s in entry)), "calls": calls, "line": sir.line_of(lp)})
        return out
