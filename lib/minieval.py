"""A tiny evaluator for decision expressions over a few boolean variables (if/else chains, `&&`/`||`/`!`, matches on
booleans or tuples of booleans, Some/None results).  Used to read small decision tables independently of how they are
spelled.  Anything outside this fragment raises Unknown (the calling rule then reports UNDECIDED)."""
import sir


class Unknown(Exception):
    pass


def _tail(block):
    if block.get("k") != "block":
        return block
    if not block["stmts"]:
        raise Unknown("empty block")
    last = block["stmts"][-1]
    if last.get("k") == "expr" and not last.get("semi"):
        return last["e"]
    raise Unknown("block without value")


def _match_pat(p, v, env):
    k = p.get("k")
    if k == "p_wild":
        return True
    if k == "p_lit":
        return p["e"].get("v") == v
    if k == "p_ident":
        if p["name"] in ("true", "false"):
            return (p["name"] == "true") == v
        env[p["name"]] = v
        return True
    if k == "p_tuple":
        if not isinstance(v, tuple) or len(v) != len(p["elems"]):
            raise Unknown("tuple arity")
        return all(_match_pat(e, x, env) for e, x in zip(p["elems"], v))
    if k == "p_or":
        return any(_match_pat(c, v, env) for c in p["cases"])
    if k == "p_ref":
        return _match_pat(p["pat"], v, env)
    if k in ("p_ts", "p_path"):
        name = p["segs"][-1]
        if name == "None":
            return v is None
        if name == "Some":
            if v is None or not isinstance(v, tuple) or v[0] != "Some":
                return False
            return _match_pat(p["elems"][0], v[1], env) if p.get("elems") else True
    raise Unknown("pattern %s" % sir.pat_str(p))


def ev(e, env):
    k = e.get("k")
    if k == "paren":
        return ev(e["e"], env)
    if k == "ref":
        return ev(e["e"], env)
    if k == "lit":
        if e.get("t") == "bool":
            return bool(e["v"])
        if e.get("t") in ("str", "char"):
            return e["v"]
        raise Unknown("literal")
    if k == "field":
        if e.get("name") in env.get("$field", {}):
            return env["$field"][e["name"]]
        raise Unknown("field %s" % e.get("name"))
    if k == "path":
        if len(e["segs"]) == 1:
            n = e["segs"][0]
            if n in env:
                return env[n]
            if n == "None":
                return None
            if n in ("true", "false"):
                return n == "true"
        raise Unknown("name %s" % e.get("s"))
    if k == "unary":
        if e["op"] == "!":
            return not ev(e["e"], env)
        if e["op"] == "*":
            return ev(e["e"], env)
        raise Unknown("unary")
    if k == "binary":
        op = e["op"]
        if op == "&&":
            return ev(e["l"], env) and ev(e["r"], env)
        if op == "||":
            return ev(e["l"], env) or ev(e["r"], env)
        if op == "==":
            return ev(e["l"], env) == ev(e["r"], env)
        if op == "!=":
            return ev(e["l"], env) != ev(e["r"], env)
        raise Unknown("operator %s" % op)
    if k == "mcall":
        if e["m"] in env.get("$mcall", {}):
            return env["$mcall"][e["m"]]
        raise Unknown("method %s" % e["m"])
    if k == "try":
        return ev(e["e"], env)
    if k == "tuple":
        return tuple(ev(x, env) for x in e["elems"])
    if k == "call":
        nm = sir.call_name(e)
        if nm == "Some" and len(e["args"]) == 1:
            return ("Some", ev(e["args"][0], env))
        raise Unknown("call %s" % nm)
    if k == "block":
        env2 = dict(env)
        for st in e["stmts"][:-1]:
            if st.get("k") == "local" and st["pat"].get("k") == "p_ident" and st.get("init") is not None:
                try:
                    env2[st["pat"]["name"]] = ev(st["init"], env2)
                except Unknown:
                    pass  # keep a value the caller supplied for this name; otherwise it stays unbound
            elif st.get("k") == "item":
                continue
            elif st.get("k") == "local":
                continue
            else:
                raise Unknown("statement")
        return ev(_tail(e), env2)
    if k == "if":
        c = e["cond"]
        if c.get("k") == "let":
            v = ev(c["e"], env)
            env2 = dict(env)
            if _match_pat(c["pat"], v, env2):
                return ev(e["then"], env2)
            if e.get("else") is None:
                raise Unknown("if without else")
            return ev(e["else"], env)
        if ev(c, env):
            return ev(e["then"], env)
        if e.get("else") is None:
            raise Unknown("if without else")
        return ev(e["else"], env)
    if k == "match":
        v = ev(e["e"], env)
        for a in e["arms"]:
            env2 = dict(env)
            if _match_pat(a["pat"], v, env2):
                if a.get("guard") is not None and not ev(a["guard"], env2):
                    continue
                return ev(a["body"], env2)
        raise Unknown("no arm")
    raise Unknown("expression kind %s" % k)
