"""Model of the stylesheet compiler's token-dispatch loops (expanded view of glass-easel-stylesheet-compiler)."""
import json, os, re
import sir

REFS = os.path.join(os.path.dirname(os.path.dirname(os.path.abspath(__file__))), "refs")
TOKEN_VARIANTS = {"CurlyBracketBlock", "SquareBracketBlock", "ParenthesisBlock", "Function", "Delim", "Ident", "Dimension", "WhiteSpace",
                  "Semicolon", "AtKeyword", "Comma", "Colon", "Number", "Percentage", "QuotedString", "Comment", "Hash", "IDHash"}
BLOCK_TOKENS = ("CurlyBracketBlock", "SquareBracketBlock", "ParenthesisBlock", "Function")


def css_ref():
    return json.load(open(os.path.join(REFS, "css_refs.json")))


class Arm:
    def __init__(self, variants, node, delim=None):
        self.variants = variants
        self.node = node
        self.delim = delim

    @property
    def body(self):
        return self.node["body"]


class Dispatch:
    """one `match` over the current token inside a loop"""

    def __init__(self, fn, match_node, loop):
        self.fn = fn
        self.node = match_node
        self.loop = loop
        self.arms = []
        for a in match_node["arms"]:
            vs = []
            delim = None
            cases = a["pat"]["cases"] if a["pat"].get("k") == "p_or" else [a["pat"]]
            for c in cases:
                if c.get("k") in ("p_path", "p_ts", "p_struct") and len(c["segs"]) >= 2 and c["segs"][-2] == "Token":
                    vs.append(c["segs"][-1])
                    if c["segs"][-1] == "Delim" and c.get("elems") and c["elems"][0].get("k") == "p_lit":
                        delim = c["elems"][0]["e"].get("v")
                elif c.get("k") == "p_wild":
                    vs.append("_")
            self.arms.append(Arm(vs, a, delim))

    def arm(self, variant):
        for a in self.arms:
            if variant in a.variants:
                return a
        for a in self.arms:
            if "_" in a.variants:
                return a
        return None

    def has(self, variant):
        return any(variant in a.variants for a in self.arms)

    def has_class_arm(self):
        return any("Delim" in a.variants and a.delim == "." for a in self.arms)

    def calls(self, arm):
        return [sir.call_name(n) for n in sir.walk(arm.body) if n.get("k") in ("call", "mcall") and sir.call_name(n)]

    def calls_deep(self, arm, idx, depth=2):
        """calls made by the arm, and by the private helpers it hands its work to (free functions of the crate that are not
        themselves dispatch routines)"""
        out = list(self.calls(arm))
        seen = set()
        frontier = list(out)
        for _ in range(depth):
            nxt = []
            for nm in frontier:
                for g in idx.fns:
                    if g.name == nm and g.body and id(g) not in seen and not g.base and g is not self.fn and not _has_dispatch(g):
                        seen.add(id(g))
                        cs = [sir.call_name(n) for n in sir.walk(g.body) if n.get("k") in ("call", "mcall") and sir.call_name(n)]
                        out += cs
                        nxt += cs
            frontier = nxt
        return out


def _has_dispatch(g):
    """a function that owns a token dispatch loop of its own (parse_rules, the block converters) is a routine, not a helper"""
    for n in sir.walk(g.body):
        if n.get("k") == "match" and sum(1 for a in n["arms"] if "Token::" in sir.pat_str(a["pat"])) >= 4:
            return True
    return False


def dispatches(idx):
    out = []
    for f in idx.fns:
        if not f.body:
            continue
        pm = None
        for n in sir.walk(f.body):
            if n.get("k") != "match":
                continue
            vs = set()
            for a in n["arms"]:
                cases = a["pat"]["cases"] if a["pat"].get("k") == "p_or" else [a["pat"]]
                for c in cases:
                    if c.get("k") in ("p_path", "p_ts", "p_struct") and len(c["segs"]) >= 2 and c["segs"][-2] == "Token":
                        vs.add(c["segs"][-1])
            if len(vs & TOKEN_VARIANTS) < 3:
                continue
            if not any(a["pat"].get("k") == "p_wild" for a in n["arms"]):
                continue
            pm = pm or sir.parent_map(f.body)
            loop = None
            p = n
            while id(p) in pm:
                p = pm[id(p)]
                if p.get("k") in ("loop", "while", "for"):
                    loop = p
                    break
            if loop is None:
                continue
            # the whitespace pre-match (arms with empty bodies) is not a dispatch
            emits = any(x.get("k") in ("call", "mcall") for a in n["arms"] for x in sir.walk(a["body"]))
            nonempty = sum(1 for a in n["arms"] if any(x.get("k") in ("call", "mcall", "assign", "return") for x in sir.walk(a["body"])))
            if nonempty < 3:
                continue
            out.append(Dispatch(f, n, loop))
    return out


def classify(ds):
    """name the dispatches by role -> dict role -> Dispatch"""
    roles = {}
    for d in ds:
        calls_import = any("import_sign" in sir.expr_str(x) for x in sir.walk(d.fn.body) if x.get("k") == "field")
        if d.has_class_arm():
            # selector context: prelude of a qualified rule (its Curly arm returns) or nested selector block
            curly = d.arm("CurlyBracketBlock")
            returns = curly is not None and any(x.get("k") == "return" for x in sir.walk(curly.body))
            roles.setdefault("qualified-prelude" if returns else "class-block", d)
        elif d.has("Dimension") and not d.has("Semicolon"):
            roles.setdefault("value-block", d)
        elif d.has("Semicolon") and d.has("CurlyBracketBlock"):
            # at-rule preludes: the import one breaks on Semicolon without output, the generic one appends it
            sem = d.arm("Semicolon")
            writes = any(sir.call_name(x) in ("append_token",) for x in sir.walk(sem.body) if x.get("k") in ("call", "mcall"))
            roles.setdefault("at-prelude" if writes else "import-media", d)
        elif d.has("Function") and d.has("Semicolon"):
            roles.setdefault("import-conditions", d)
    return roles


MATH_RX = re.compile(r"func\s*==\s*\"(\w+)\"")


def math_condition(cond_str, idx):
    """names a condition on the function name tests for: {'calc'} for `func == "calc"`, the literal list of a helper fn."""
    names = set(MATH_RX.findall(cond_str))
    m = re.search(r"(\w+)\(&?func\)", cond_str)
    if m:
        for f in idx.fns:
            if f.name == m.group(1) and f.body:
                for n in sir.walk(f.body):
                    if n.get("k") == "p_lit" and n["e"].get("t") == "str":
                        names.add(n["e"]["v"])
                    if n.get("k") == "lit" and n.get("t") == "str":
                        names.add(n["v"])
                    # `TABLE.contains(&name)`: the literals of the constant array
                    if n.get("k") == "mcall" and n["m"] == "contains" and sir.strip_ref(n["recv"]).get("k") == "path" and hasattr(idx, "const"):
                        c = idx.const(sir.strip_ref(n["recv"])["segs"][-1])
                        ce = (c or {}).get("e") or {}
                        if ce.get("k") == "ref":
                            ce = ce["e"]
                        if ce.get("k") == "array":
                            for x in ce["elems"]:
                                x = sir.strip_ref(x)
                                if x.get("k") == "lit" and x.get("t") == "str":
                                    names.add(x["v"])
    return names


def inline_block_wrappers(idx):
    """`let close = ss.append_nested_block(t, input); ROUTINE(input, ss, ..); ss.append_nested_block_close(close, input)` is the unit every
    dispatch arm for a nested block consists of.  A private free function that wraps exactly that unit (no token dispatch of its own, no
    value returned, at most ten statements) is not a new routine: its calls are replaced, in the syntax IR, by its body with the
    parameters substituted, so that every rule reads an arm the same way whether the triple is written out or named."""
    import copy
    helpers = {}
    for g in idx.fns:
        if not g.body or g.base or g.ret is not None or _has_dispatch(g) or len(g.body.get("stmts", [])) > 10:
            continue
        names = [sir.call_name(n) for n in sir.walk(g.body) if n.get("k") in ("call", "mcall")]
        if "append_nested_block" not in names or g.name in names:
            continue
        pn = g.param_names()
        if any(p is None for p in pn):
            continue
        helpers[g.name] = (g, pn)
    if not helpers:
        return 0
    count = 0
    for f in idx.fns:
        if not f.body or f.name in helpers:
            continue
        for n in list(sir.walk(f.body)):
            if n.get("k") != "call" or n["f"].get("k") != "path" or n["f"]["segs"][-1] not in helpers:
                continue
            g, pn = helpers[n["f"]["segs"][-1]]
            if len(n["args"]) != len(pn):
                continue
            subst = dict(zip(pn, n["args"]))
            body = copy.deepcopy(g.body)
            for x in list(sir.walk(body)):
                if x.get("k") == "path" and len(x["segs"]) == 1 and x["segs"][0] in subst:
                    rep = copy.deepcopy(subst[x["segs"][0]])
                    x.clear()
                    x.update(rep)
            n.clear()
            n.update(body)
            count += 1
    return count


def _dereturn(stmts):
    """`if c { A; return; } B` at the top level of a unit-returning helper is `if c { A } else { B }`: a helper body can then be
    spliced into its caller without its `return` looking like the caller's"""
    out = []
    for i, st in enumerate(stmts):
        e = st.get("e") if st.get("k") == "expr" else None
        if e is not None and e.get("k") == "if" and e.get("else") is None and e["then"].get("k") == "block" and e["then"]["stmts"]:
            last = e["then"]["stmts"][-1]
            le = last.get("e") if last.get("k") == "expr" else last
            if isinstance(le, dict) and le.get("k") == "return" and le.get("e") is None:
                new_if = dict(e)
                new_if["then"] = dict(e["then"], stmts=e["then"]["stmts"][:-1])
                new_if["else"] = {"k": "block", "stmts": _dereturn(stmts[i + 1:])}
                out.append(dict(st, e=new_if))
                return out
        out.append(st)
    return out


def inline_private_methods(idx, bases=("StyleSheetOutput", "StepParser")):
    """A private method of the output type / the step parser that other methods of the same type call on `self`
    (`self.push_space()`, `self.push_integer(..)`, `self.next_raw_token()`) is part of its callers: its calls are replaced, in the
    syntax IR, by its body (parameters substituted, early `return;` turned into an else branch), so that the rules which read how an
    appender writes and counts, or how the reader samples positions, see the same statements whether or not a helper was extracted."""
    import copy
    helpers = {}
    for g in idx.fns:
        if not g.body or g.base not in bases or g.node.get("vis") or g.trait or len(g.body.get("stmts", [])) > 12:
            continue
        pn = g.param_names()
        if not pn or pn[0] != "self" or any(p is None for p in pn):
            continue
        if any(n.get("k") == "mcall" and n["m"] == g.name for n in sir.walk(g.body)):
            continue
        rets = [n for n in sir.walk(g.body, into_closures=False) if n.get("k") == "return"]
        body = dict(g.body, stmts=_dereturn(g.body["stmts"]))
        if any(n.get("k") == "return" for n in sir.walk(body, into_closures=False)):
            continue     # a return that cannot be expressed as an else branch: leave the call alone
        helpers[(g.base, g.name)] = (g, pn, body)
    count = 0
    for f in idx.fns:
        if not f.body or f.base not in bases:
            continue
        for n in list(sir.walk(f.body)):
            if n.get("k") != "mcall" or (f.base, n["m"]) not in helpers or sir.expr_str(n["recv"]) != "self" or f.name == n["m"]:
                continue
            g, pn, body = helpers[(f.base, n["m"])]
            if len(n["args"]) != len(pn) - 1:
                continue
            subst = dict(zip(pn[1:], n["args"]))
            b = copy.deepcopy(body)
            for x in list(sir.walk(b)):
                if x.get("k") == "path" and len(x["segs"]) == 1 and x["segs"][0] in subst:
                    rep = copy.deepcopy(subst[x["segs"][0]])
                    x.clear()
                    x.update(rep)
            if len(b.get("stmts", [])) == 1 and b["stmts"][0].get("k") == "expr" and not b["stmts"][0].get("semi") and isinstance(b["stmts"][0].get("e"), dict):
                b = b["stmts"][0]["e"]      # a one-expression helper is that expression
            n.clear()
            n.update(b)
            g.inlined = True
            count += 1
    return count
