"""Shared fact extraction for all rule packs.

Everything is computed from /repo's *current working tree* on every run; the only
thing cached is the result for one exact tree state (key = sha256 over every input
file + tool binaries), so that the twenty checks extract once per tree state.
"""
import fcntl, glob, hashlib, json, os, shutil, subprocess, sys, time

VERIF = os.path.dirname(os.path.dirname(os.path.abspath(__file__)))
REPO = os.environ.get("VERIF_REPO", "/repo")
# VERIF_BUILD_DIR: a private build/cache directory, so that several scratch trees can be extracted at the same time (the shared one is
# serialised by a lock around its cargo target directories); used by tools/seed_subset.sh and tools/refactor_matrix.sh only
BUILD = os.environ.get("VERIF_BUILD_DIR") or os.path.join(VERIF, ".build")
TOOLS = os.path.join(VERIF, "tools")
SRCFACTS = os.path.join(TOOLS, "srcfacts/target/release/srcfacts")
MIRFACTS = os.path.join(TOOLS, "mirfacts/target/release/mirfacts")
CRATES = ["glass-easel-template-compiler", "glass-easel-stylesheet-compiler"]
TS_FILES = ["glass-easel/src/tmpl/proc_gen_wrapper.ts", "glass-easel/src/tmpl/index.ts"]


class NotAnalysable(Exception):
    pass


def _input_files():
    files = []
    for c in CRATES:
        for root, _d, fs in os.walk(os.path.join(REPO, c, "src")):
            for f in fs:
                if f.endswith(".rs"):
                    files.append(os.path.join(root, f))
        for f in ("Cargo.toml", "build.rs"):
            p = os.path.join(REPO, c, f)
            if os.path.exists(p):
                files.append(p)
    for f in ("Cargo.toml", "Cargo.lock"):
        files.append(os.path.join(REPO, f))
    for f in TS_FILES:
        p = os.path.join(REPO, f)
        if os.path.exists(p):
            files.append(p)
    return sorted(files)


def tree_hash():
    h = hashlib.sha256()
    for f in _input_files():
        h.update(f.encode())
        h.update(b"\0")
        with open(f, "rb") as fh:
            h.update(fh.read())
        h.update(b"\0")
    with open(os.path.join(VERIF, "fixtures", "poscontrol", "src", "lib.rs"), "rb") as fh:
        h.update(fh.read())
    for t in (SRCFACTS, MIRFACTS):
        if os.path.exists(t):
            st = os.stat(t)
            h.update(("%s:%d:%d" % (t, st.st_size, int(st.st_mtime))).encode())
        else:
            h.update(("%s:missing" % t).encode())
    return h.hexdigest()[:24]


def _env():
    env = dict(os.environ)
    env["CARGO_NET_OFFLINE"] = "true"
    env.pop("RUSTC_WORKSPACE_WRAPPER", None)
    env.pop("RUSTFLAGS", None)
    return env


def _nightly_sysroot():
    return subprocess.check_output(["rustc", "+nightly", "--print", "sysroot"], env=_env()).decode().strip()


def _rm_fingerprints(target):
    for d in glob.glob(os.path.join(target, "debug", ".fingerprint", "glass-easel-*")):
        shutil.rmtree(d, ignore_errors=True)


def _run_expand(crate, target, out_rs, log):
    _rm_fingerprints(target)
    env = _env()
    env["CARGO_TARGET_DIR"] = target
    env["RUSTFLAGS"] = "-Awarnings"
    with open(out_rs, "wb") as o, open(log, "wb") as e:
        p = subprocess.Popen(
            ["cargo", "+nightly", "rustc", "--offline", "-p", crate, "--lib", "--", "-Zunpretty=expanded"],
            cwd=REPO, env=env, stdout=o, stderr=e)
    return p


def _run_mir(target, outdir, log):
    _rm_fingerprints(target)
    env = _env()
    env["CARGO_TARGET_DIR"] = target
    env["RUSTFLAGS"] = "-Zmir-opt-level=0 -Awarnings"
    env["RUSTC_WORKSPACE_WRAPPER"] = MIRFACTS
    env["MIRFACTS_OUT"] = outdir
    env["LD_LIBRARY_PATH"] = _nightly_sysroot() + "/lib" + (":" + env["LD_LIBRARY_PATH"] if env.get("LD_LIBRARY_PATH") else "")
    with open(log, "wb") as e:
        p = subprocess.Popen(
            ["cargo", "+nightly", "check", "--offline", "--workspace", "--lib"],
            cwd=REPO, env=env, stdout=e, stderr=subprocess.STDOUT)
    return p


def _run_poscontrol(target, outdir, log):
    pc = os.path.join(VERIF, "fixtures", "poscontrol")
    for d in glob.glob(os.path.join(target, "debug", ".fingerprint", "poscontrol-*")):
        shutil.rmtree(d, ignore_errors=True)
    env = _env()
    env["CARGO_TARGET_DIR"] = target
    env["RUSTFLAGS"] = "-Zmir-opt-level=0 -Awarnings"
    env["RUSTC_WORKSPACE_WRAPPER"] = MIRFACTS
    env["MIRFACTS_OUT"] = outdir
    env["MIRFACTS_ALL"] = "1"
    env["LD_LIBRARY_PATH"] = _nightly_sysroot() + "/lib" + (":" + env["LD_LIBRARY_PATH"] if env.get("LD_LIBRARY_PATH") else "")
    with open(log, "wb") as e:
        p = subprocess.Popen(["cargo", "+nightly", "check", "--offline", "--lib"], cwd=pc, env=env, stdout=e, stderr=subprocess.STDOUT)
    return p


def _tail(path, n=40):
    try:
        with open(path, "r", errors="replace") as f:
            return "".join(f.readlines()[-n:])
    except OSError:
        return ""


def ensure_tools():
    for t in (SRCFACTS, MIRFACTS):
        if not os.path.exists(t):
            raise NotAnalysable("tool %s is not built; run ./setup.sh" % t)


def extract(verbose=False):
    """Returns the directory holding the facts of the current tree state."""
    ensure_tools()
    os.makedirs(BUILD, exist_ok=True)
    key = tree_hash()
    d = os.path.join(BUILD, "facts", key)
    done = os.path.join(d, "DONE")
    if os.path.exists(done):
        try:
            os.utime(d, None)   # least-recently-used pruning below
        except OSError:
            pass
        return d
    lock = open(os.path.join(BUILD, "lock"), "w")
    fcntl.flock(lock, fcntl.LOCK_EX)
    try:
        if os.path.exists(done):
            return d
        t0 = time.time()
        if os.path.exists(d):
            shutil.rmtree(d)
        os.makedirs(os.path.join(d, "mir"))
        os.makedirs(os.path.join(d, "pc_mir"))
        # keep at most 80 cached states (about 10 MB each): the thorough tier revisits the same scratch trees from several packs
        facts_root = os.path.join(BUILD, "facts")
        olds = sorted((os.path.join(facts_root, x) for x in os.listdir(facts_root)), key=os.path.getmtime)
        for o in olds[:-80]:
            if o != d:
                shutil.rmtree(o, ignore_errors=True)
        tgt_exp = [os.path.join(BUILD, "target-exp-tc"), os.path.join(BUILD, "target-exp-sc")]
        tgt_mir = os.path.join(BUILD, "target-mir")
        procs = []
        exp_rs = []
        for c, tg in zip(CRATES, tgt_exp):
            rs = os.path.join(d, c.replace("-", "_") + ".expanded.rs")
            exp_rs.append(rs)
            procs.append((c + " expand", _run_expand(c, tg, rs, rs + ".log"), rs + ".log"))
        procs.append(("mir", _run_mir(tgt_mir, os.path.join(d, "mir"), os.path.join(d, "mir.log")), os.path.join(d, "mir.log")))
        procs.append(("poscontrol", _run_poscontrol(os.path.join(BUILD, "target-pc"), os.path.join(d, "pc_mir"), os.path.join(d, "pc.log")), os.path.join(d, "pc.log")))
        failed = []
        for name, p, log in procs:
            rc = p.wait()
            if rc != 0:
                failed.append((name, rc, _tail(log)))
        if failed:
            msg = "\n".join("[%s] exit %d\n%s" % f for f in failed)
            raise NotAnalysable("the tree does not build with the nightly toolchain:\n" + msg)
        mirs = glob.glob(os.path.join(d, "mir", "*.jsonl"))
        if len(mirs) < 2:
            raise NotAnalysable("mirfacts produced %d fact files (expected 2): cargo skipped the wrapper?\n%s" % (len(mirs), _tail(os.path.join(d, "mir.log"))))
        # syntax IR: expanded crates, and original files
        for c, rs in zip(CRATES, exp_rs):
            if os.path.getsize(rs) < 1000:
                raise NotAnalysable("expanded source of %s is empty\n%s" % (c, _tail(rs + ".log")))
            out = os.path.join(d, c.replace("-", "_") + ".json")
            r = subprocess.run([SRCFACTS, out, rs], capture_output=True, text=True)
            if r.returncode != 0:
                raise NotAnalysable("srcfacts failed on %s: %s" % (rs, r.stderr))
        origs = [f for f in _input_files() if f.endswith(".rs")]
        r = subprocess.run([SRCFACTS, os.path.join(d, "orig.json")] + origs, capture_output=True, text=True)
        if r.returncode != 0:
            raise NotAnalysable("srcfacts failed on original sources: %s" % r.stderr)
        r = subprocess.run([SRCFACTS, os.path.join(d, "pc.json"), os.path.join(VERIF, "fixtures", "poscontrol", "src", "lib.rs")], capture_output=True, text=True)
        if r.returncode != 0 or not glob.glob(os.path.join(d, "pc_mir", "*.jsonl")):
            raise NotAnalysable("positive-control crate could not be analysed: %s\n%s" % (r.stderr, _tail(os.path.join(d, "pc.log"))))
        for f in TS_FILES:
            p = os.path.join(REPO, f)
            if os.path.exists(p):
                shutil.copy(p, os.path.join(d, os.path.basename(f)))
        with open(os.path.join(d, "meta.json"), "w") as m:
            json.dump({"key": key, "wall_s": round(time.time() - t0, 2), "at": time.time()}, m)
        open(done, "w").close()
        if verbose:
            print("extracted facts in %.1fs -> %s" % (time.time() - t0, d), file=sys.stderr)
        return d
    finally:
        fcntl.flock(lock, fcntl.LOCK_UN)
        lock.close()


if __name__ == "__main__":
    try:
        print(extract(verbose=True))
    except NotAnalysable as e:
        print("NOT-ANALYSABLE:", e, file=sys.stderr)
        sys.exit(2)
