"""Linearisation of emitter code into token sequences (expanded view), for sibling-agreement rules.

token = ('prep', receiver)  [marker: an expression is prepared here, nothing is written]
        | ('lit', text) | ('hole', expr string) | ('call', method, receiver, args string) | ('if', cond string, then tokens, else tokens)
        | ('match', scrutinee, [(pattern string, tokens)]) | ('for', iter string, tokens) | ('closure-call', callee, [tokens per closure arg])
"""
import re
import sir

EMIT_METHODS = {"value_expr", "lvalue_path", "lvalue_state_expr", "write_lvalue_path", "to_lvalue_path_arr", "write_as_extra_argument"}
SCOPE_METHODS = {"expr_stmt", "function_args", "function", "function_dyn_args", "brace_block", "paren", "stat", "to_proc_gen_write_map",
                 "declare_var_on_top_scope_init", "set_var_on_top_scope_init", "function_scope"}


def merge(tokens):
    out = []
    for t in tokens:
        if t[0] == "lit" and out and out[-1][0] == "lit":
            out[-1] = ("lit", out[-1][1] + t[1])
        elif t[0] == "lit" and t[1] == "":
            continue
        else:
            out.append(t)
    return out


_ENV = {"fmt": {}, "clos": {}, "lists": {}}


def _helper_pieces(x):
    """format pieces of a private helper call that only formats a fragment, else None"""
    x = sir.strip_ref(x)
    if x.get("k") not in ("call", "mcall"):
        return None
    import prectables as _pt
    idx = getattr(_pt, "INDEX", None)
    nm = x["m"] if x.get("k") == "mcall" else (sir.call_name(x) or "").split("::")[-1]
    cands = [g for g in idx.fns if g.name == nm and g.body] if idx is not None and nm else []
    if len(cands) == 1 and len(cands[0].body["stmts"]) == 1 and (cands[0].ret or "").replace(" ", "") in ("String", "CompactString"):
        last = cands[0].body["stmts"][-1]
        tail = last.get("e") if last.get("k") == "expr" and not last.get("semi") else None
        return sir.format_call(tail) if tail is not None else None
    return None


_DISPLAY_CACHE = {}


def _display_pieces(nm):
    """format pieces written by the `Display` impl of the type of the generator local / parameter `nm`, when that type is a struct of
    the generator with a hand-written `Display` (a `flags: EventBindingFlags` that prints `!0,!1,!0`): the hole prints those pieces"""
    import prectables as _pt
    idx = getattr(_pt, "INDEX", None)
    if idx is None:
        return None
    key = (id(idx), nm)
    if key in _DISPLAY_CACHE:
        return _DISPLAY_CACHE[key]
    res = None
    disp = {}
    for g in idx.fns:
        if g.name == "fmt" and g.body and g.trait and g.trait.split("::")[-1] == "Display" and g.base and any(m in g.module for m in ("proc_gen", "group", "binding_map")):
            ws = [sir.write_fmt_call(y) for y in sir.walk(g.body)]
            ws = [w for w in ws if w]
            if len(ws) == 1:
                disp[g.base] = ws[0][1]
    if disp:
        tys = set()
        for g in idx.fns:
            if not g.body or not any(m in g.module for m in ("proc_gen", "group", "binding_map")):
                continue
            if nm in [x for x in g.param_names() if x]:
                t = re.sub(r"[&\s]|mut\b", "", str(g.param_ty(nm) or "")).split("::")[-1]
                tys.add(t)
            for y in sir.walk(g.body):
                if y.get("k") == "local" and y["pat"].get("k") == "p_ident" and y["pat"].get("name") == nm and y.get("init") is not None:
                    i_ = sir.strip_ref(y["init"])
                    tys.add(i_["path"].split("::")[-1] if i_.get("k") == "struct" else "?")
        if len(tys) == 1 and list(tys)[0] in disp:
            res = disp[list(tys)[0]]
    _DISPLAY_CACHE[key] = res
    return res


_DEPTH = [0]


def _emit_helper(x):
    """the private free function of the generator that a call names, if it is one that writes into the writer passed to it"""
    import prectables as _pt
    idx = getattr(_pt, "INDEX", None)
    if idx is None or x["f"].get("k") != "path" or len(x["f"]["segs"]) != 1:
        return None
    nm = x["f"]["segs"][0]
    cands = [g for g in idx.fns if g.name == nm and g.body and not g.base and "proc_gen" in g.module and not g.name.startswith("to_proc_gen") and g.name != "write_attribute_value"]
    if len(cands) != 1:
        return None
    g = cands[0]
    if g.node.get("vis") or not any(sir.write_fmt_call(y) or (y.get("k") == "mcall" and y["m"] in EMIT_METHODS) for y in sir.walk(g.body)):
        return None
    if any(y.get("k") == "call" and y["f"].get("k") == "path" and y["f"]["segs"] == [nm] for y in sir.walk(g.body)):
        return None   # recursive
    return g


def _collect_env(n):
    """locals that only hold pre-formatted text (`let flags = format!(..)`) and local closures: both are inlined where they are used,
    so that hoisting a fragment into a local or into a local closure does not change the token sequence"""
    fmt, clos, lists = {}, {}, {}
    for x in sir.walk(n):
        if x.get("k") == "local" and x["pat"].get("k") == "p_ident" and x.get("init") is not None:
            fc = sir.format_call(x["init"])
            if fc is None:
                fc = _helper_pieces(x["init"])
            if fc is not None:
                fmt[x["pat"]["name"]] = fc
            elif x["init"].get("k") == "closure":
                clos[x["pat"]["name"]] = x["init"]
            else:
                lt = _text_list(x["init"])
                if lt is not None:
                    lists[x["pat"]["name"]] = lt
    return {"fmt": fmt, "clos": clos, "lists": lists}


def _text_list(init):
    """`it.map(|x| format!(..)).collect()`: a list of pre-formatted fragments (joined later) -> (iterator string, element pieces)"""
    e = init
    if not (e.get("k") == "mcall" and e["m"] == "collect"):
        return None
    chain = e["recv"]
    mp = None
    while chain.get("k") == "mcall":
        if chain["m"] == "map" and chain["args"] and chain["args"][0].get("k") == "closure":
            mp = chain
        chain = chain["recv"]
    if mp is None:
        return None
    body = mp["args"][0]["body"]
    if any(sir.write_fmt_call(y) for y in sir.walk(body)):
        return None   # the closure writes by itself: not a pure list of fragments
    tail = body
    inner = {}
    if tail.get("k") == "block" and tail["stmts"]:
        for st_ in tail["stmts"][:-1]:
            if st_.get("k") == "local" and st_["pat"].get("k") == "p_ident" and st_.get("init") is not None:
                inner[st_["pat"]["name"]] = st_["init"]
        last = tail["stmts"][-1]
        tail = last["e"] if last.get("k") == "expr" and not last.get("semi") else tail
    fc = sir.format_call(tail)
    pieces = []
    if fc is not None:
        for p_ in fc:
            if p_[0] == "hole" and isinstance(p_[1], dict) and p_[1].get("k") == "path" and len(p_[1]["segs"]) == 1 and p_[1]["segs"][0] in inner:
                pieces.append(("hole", inner[p_[1]["segs"][0]], p_[2]))
            else:
                pieces.append(p_)
    else:
        pieces = [("hole", tail, "")]
    return sir.expr_str(mp["recv"]), pieces


def linearize(n, top=False):
    """tokens emitted by evaluating node n (statement, block or expression), in evaluation order.
    top=True (a whole function body): (re)collect the inlinable locals of that function first."""
    global _ENV
    if top:
        _ENV = _collect_env(n)
    out = []
    _lin(n, out)
    return merge(out)


def _hole(e, out, depth):
    nm = None
    if isinstance(e, dict):
        x = sir.strip_ref(e)
        if x.get("k") == "path" and len(x["segs"]) == 1:
            nm = x["segs"][0]
    if nm is not None and nm in _ENV["fmt"] and depth < 3:
        for p in _ENV["fmt"][nm]:
            if p[0] == "lit":
                out.append(("lit", p[1]))
            else:
                _hole(p[1], out, depth + 1)
        return
    if isinstance(e, dict) and depth < 3:
        x = sir.strip_ref(e)
        # a private helper that only formats a fragment (`fn flags_to_js(&self) -> String { format!("{},{},{}", ..) }`): its pieces
        # are emitted where it is called
        fc = _helper_pieces(x)
        if fc is not None:
            for p in fc:
                if p[0] == "lit":
                    out.append(("lit", p[1]))
                else:
                    _hole(p[1], out, depth + 1)
            return
    if nm is not None and depth < 3:
        dp = _display_pieces(nm)
        if dp is not None:
            for p in dp:
                if p[0] == "lit":
                    out.append(("lit", p[1]))
                else:
                    out.append(("hole", sir.expr_str(p[1]) if isinstance(p[1], dict) else str(p[1])))
            return
    if isinstance(e, dict):
        x = sir.strip_ref(e)
        if x.get("k") == "mcall" and x["m"] == "join" and x["recv"].get("k") == "path" and len(x["recv"]["segs"]) == 1 and x["recv"]["segs"][0] in _ENV.get("lists", {}) and depth < 3:
            it_s, pieces = _ENV["lists"][x["recv"]["segs"][0]]
            sub = []
            for p in pieces:
                if p[0] == "lit":
                    sub.append(("lit", p[1]))
                else:
                    _hole(p[1], sub, depth + 1)
            out.append(("for", it_s, merge(sub)))
            return
    out.append(("hole", sir.expr_str(e)))


def _lin(n, out):
    if not isinstance(n, dict):
        return
    k = n.get("k")
    if k == "block":
        for s in n["stmts"]:
            _lin(s, out)
        return
    if k == "local":
        if n["pat"].get("k") == "p_ident" and n["pat"]["name"] in _ENV.get("lists", {}):
            return   # a list of pre-formatted fragments: emitted where it is joined
        if n.get("init") is not None:
            _lin(n["init"], out)
        return
    if k == "expr":
        _lin(n["e"], out)
        return
    if k == "item":
        return
    if k == "try":
        _lin(n["e"], out)
        return
    if k == "if":
        t = linearize(n["then"])
        e = linearize(n["else"]) if n.get("else") is not None else []
        cond = n["cond"]
        ctoks = []
        if cond.get("k") == "let":
            _lin(cond["e"], ctoks)
            cs = "let %s = %s" % (sir.pat_str(cond["pat"]), sir.expr_str(cond["e"]))
        else:
            _lin(cond, ctoks)
            cs = sir.expr_str(cond)
        out.extend(ctoks)
        if t or e:
            out.append(("if", cs, t, e))
        return
    if k == "match":
        _lin(n["e"], out)
        arms = []
        for a in n["arms"]:
            arms.append((sir.pat_str(a["pat"]), linearize(a["body"])))
        if any(a[1] for a in arms):
            out.append(("match", sir.expr_str(n["e"]), arms))
        return
    if k in ("for", "while", "loop"):
        if k == "for":
            _lin(n["e"], out)
        body = linearize(n["body"])
        if body:
            out.append(("for", sir.expr_str(n["e"]) if k == "for" else k, body))
        return
    if k == "mcall":
        wf = sir.write_fmt_call(n)
        if wf:
            for p in wf[1]:
                if p[0] == "lit":
                    out.append(("lit", p[1]))
                else:
                    # evaluate the argument first (it may emit), then the hole
                    _hole(p[1], out, 0)
            return
        _lin(n["recv"], out)
        if n["m"] == "to_proc_gen_prepare":
            # where an expression is prepared (its hoisted temporaries are declared here): a marker, no text
            out.append(("prep", sir.expr_str(sir.strip_ref(n["recv"]))))
            return
        if n["m"] in EMIT_METHODS:
            out.append(("call", n["m"], sir.expr_str(sir.strip_ref(n["recv"])), ",".join(sir.expr_str(a) for a in n["args"][1:])))
            return
        clos = [a for a in n["args"] if a.get("k") == "closure"]
        for a in n["args"]:
            if a.get("k") != "closure":
                _lin(a, out)
        if clos:
            out.append(("closure-call", n["m"], [sir.expr_str(a) for a in n["args"] if a.get("k") != "closure"], [linearize(c["body"]) for c in clos]))
        return
    if k == "call":
        if n["f"].get("k") == "path" and len(n["f"]["segs"]) == 1 and n["f"]["segs"][0] in _ENV["clos"] and not n.get("_inl"):
            clo = _ENV["clos"][n["f"]["segs"][0]]
            for a in n["args"]:
                if a.get("k") != "closure":
                    _lin(a, out)
            # the body of the local closure, with its parameters standing for the arguments
            sub = []
            _lin(clo["body"], sub)
            pn = [b for pp in clo["params"] for b, _p in sir.pat_bindings(pp)]
            amap = {pn[i]: sir.expr_str(sir.strip_ref(a)) for i, a in enumerate(n["args"]) if i < len(pn)}
            out.extend(_rename(sub, amap))
            return
        hf = _emit_helper(n)
        if hf is not None and _DEPTH[0] < 2:
            # a private free function that writes a fragment into the writer it is given (an extracted piece of an emitter): its
            # body stands where it is called, its parameters stand for the arguments
            for a in n["args"]:
                if a.get("k") != "closure":
                    _lin(a, out)
            _DEPTH[0] += 1
            try:
                sub = []
                _lin(hf.body, sub)
            finally:
                _DEPTH[0] -= 1
            pn = [x for x in hf.param_names()]
            amap = {pn[i]: sir.expr_str(sir.strip_ref(a)) for i, a in enumerate(n["args"]) if i < len(pn) and pn[i]}
            out.extend(_rename(merge(sub), amap))
            return
        for a in n["args"]:
            if a.get("k") != "closure":
                _lin(a, out)
        clos = [a for a in n["args"] if a.get("k") == "closure"]
        name = sir.call_path(n) or sir.expr_str(n["f"])
        if clos:
            out.append(("closure-call", name, [sir.expr_str(a) for a in n["args"] if a.get("k") != "closure"], [linearize(c["body"]) for c in clos]))
        elif name.split("::")[-1] in ("write_attribute_value",) or name.split("::")[-1].startswith("to_proc_gen"):
            out.append(("call", name.split("::")[-1], "", ",".join(sir.expr_str(a) for a in n["args"])))
        return
    if k == "closure":
        return
    if k == "mac":
        return
    if k in ("return", "break"):
        if n.get("e") is not None:
            _lin(n["e"], out)
        return
    for c in sir.children(n):
        _lin(c, out)


def _rename(tokens, amap):
    import re as _re

    def sub(t):
        for a, b in amap.items():
            t = _re.sub(r"\b%s\b" % _re.escape(a), b, t)
        return t
    out = []
    for t in tokens:
        if t[0] == "hole":
            out.append(("hole", sub(t[1])))
        elif t[0] == "call":
            out.append(("call", t[1], sub(t[2]), sub(t[3])))
        elif t[0] == "if":
            out.append(("if", sub(t[1]), _rename(t[2], amap), _rename(t[3], amap)))
        elif t[0] == "match":
            out.append(("match", sub(t[1]), [(p, _rename(b, amap)) for p, b in t[2]]))
        elif t[0] == "for":
            out.append(("for", sub(t[1]), _rename(t[2], amap)))
        elif t[0] == "closure-call":
            out.append(("closure-call", t[1], [sub(x) for x in t[2]], [_rename(c, amap) for c in t[3]]))
        else:
            out.append(t)
    return out


def flat_text(tokens, hole="\x00"):
    """concatenate the literal skeleton of a token list; holes/calls become `hole`; conditionals are rendered as
    «cond?then:else» markers are NOT added - use paths() for path-sensitive views."""
    s = []
    for t in tokens:
        if t[0] == "lit":
            s.append(t[1])
        elif t[0] in ("hole", "call"):
            s.append(hole)
        elif t[0] == "if":
            s.append(flat_text(t[2], hole))
        elif t[0] == "closure-call":
            for c in t[3]:
                s.append(flat_text(c, hole))
    return "".join(s)


def paths(tokens, limit=4096):
    """all literal skeletons over the control-flow paths of a token list (if/match branches; loops 0 or 1 time)."""
    res = [""]
    for t in tokens:
        if t[0] == "lit":
            res = [r + t[1] for r in res]
        elif t[0] == "hole":
            res = [r + "\x00" for r in res]
        elif t[0] == "call":
            res = [r + "\x01" for r in res]
        elif t[0] == "if":
            a = paths(t[2], limit)
            b = paths(t[3], limit) if t[3] else [""]
            res = [r + x for r in res for x in set(a + b)]
        elif t[0] == "match":
            alts = set()
            for _p, body in t[2]:
                alts.update(paths(body, limit))
            res = [r + x for r in res for x in alts]
        elif t[0] == "for":
            a = paths(t[2], limit)
            res = [r + x for r in res for x in set([""] + a + [y + z for y in a for z in a][:64])]
        elif t[0] == "closure-call":
            inner = [""]
            for c in t[3]:
                pc = paths(c, limit)
                inner = [i + x for i in inner for x in pc]
            res = [r + "\x02" + x + "\x03" for r in res for x in inner]
        if len(res) > limit:
            res = list(set(res))[:limit]
    return list(set(res))


def show(tokens, depth=0):
    out = []
    for t in tokens:
        if t[0] == "lit":
            out.append(repr(t[1]))
        elif t[0] == "hole":
            out.append("{%s}" % t[1])
        elif t[0] == "call":
            out.append("<%s.%s(%s)>" % (t[2], t[1], t[3]))
        elif t[0] == "if":
            out.append("[if %s: %s | else: %s]" % (t[1][:40], show(t[2]), show(t[3])))
        elif t[0] == "match":
            out.append("[match %s: %s]" % (t[1][:30], " / ".join("%s=>%s" % (p[:20], show(b)) for p, b in t[2])))
        elif t[0] == "for":
            out.append("[for %s: %s]" % (t[1][:30], show(t[2])))
        elif t[0] == "closure-call":
            out.append("%s(|..| %s)" % (t[1], " ; ".join(show(c) for c in t[3])))
    return " ".join(out)
