"""A small path-sensitive abstract interpreter over the syntax tree (constants + two kinds of "unknown").

Purpose: read *decisions* - "for this kind of first path slice and this mode, does the predicate accept / does the writer write
anything" - independently of how the function spells them (early returns, a boolean local tested later, `match` expressions
yielding a bool, `Option` combinators, guards, let-else, local closures).  It does not run the program: values are abstract,
every construct outside the fragment evaluates to UNK, loops are entered at most once, and the number of paths is bounded.

Abstract values
    True / False / int / str              constants
    NONE                                  Option::None                      ("None" cannot be Python None: that means "no value")
    ("Some", v) ("Ok", v) ("Err", v)      std wrappers
    ("T", (v, ..))                        tuple
    ("E", name, fields)                   enum variant / struct: name = last path segment, fields = tuple of values or
                                          tuple of (field, value) pairs
    ("closure", node, env)                local closure
    UNIT                                  ()
    FREE                                  an input the caller declared unknown (both truth values are genuinely possible)
    UNK                                   something this interpreter does not model; a decision that depends on it is *tainted*

run(body, env, hooks) -> [Outcome]; Outcome.kind in {"val", "ret"}; .value; .events (list of effects reported by hooks or
write calls); .tainted (a fork on UNK happened on this path); .approx (a loop was cut short on this path)
"""
import sir

FREE = ("FREE",)
UNK = ("UNK",)
NONE = ("None",)
UNIT = ("T", ())
MAX_PATHS = 400


_RUST_WHITE_SPACE = set([0x20, 0x85, 0xA0, 0x1680, 0x2028, 0x2029, 0x202F, 0x205F, 0x3000]) | set(range(0x9, 0xE)) | set(range(0x2000, 0x200B))


def _ascii(pred):
    return lambda c: bool(c.isascii() and pred(c))


# std predicates on `char` whose value is fixed by the language reference (the Unicode-table ones only for ASCII input)
def _uni_alpha(c):
    """Rust's char::is_alphabetic (Unicode `Alphabetic`) outside ASCII: letters and letter numbers are; marks may be
    (Other_Alphabetic is not in Python's tables) -> unknown; everything else is not"""
    import unicodedata
    cat = unicodedata.category(c)
    if cat[0] == "L" or cat == "Nl":
        return True
    if cat[0] == "M" or cat == "So":
        return UNK
    return False


def _uni_num(c):
    """Rust's char::is_numeric: general categories Nd, Nl, No"""
    import unicodedata
    return unicodedata.category(c) in ("Nd", "Nl", "No")


CHAR_PREDICATES = {
    "is_ascii": lambda c: c.isascii(),
    "is_ascii_alphabetic": _ascii(lambda c: c.isalpha()),
    "is_ascii_alphanumeric": _ascii(lambda c: c.isalnum()),
    "is_ascii_digit": _ascii(lambda c: c.isdigit()),
    "is_ascii_uppercase": _ascii(lambda c: c.isupper()),
    "is_ascii_lowercase": _ascii(lambda c: c.islower()),
    "is_ascii_hexdigit": _ascii(lambda c: c in "0123456789abcdefABCDEF"),
    "is_ascii_whitespace": lambda c: c in " \t\n\x0c\r",
    "is_ascii_punctuation": _ascii(lambda c: 0x21 <= ord(c) <= 0x7e and not c.isalnum()),
    "is_ascii_control": lambda c: ord(c) < 0x20 or ord(c) == 0x7f,
    "is_ascii_graphic": lambda c: 0x21 <= ord(c) <= 0x7e,
    "is_whitespace": lambda c: ord(c) in _RUST_WHITE_SPACE,
    "is_control": lambda c: ord(c) < 0x20 or 0x7f <= ord(c) <= 0x9f,
    "is_alphabetic": lambda c: c.isalpha() if c.isascii() else _uni_alpha(c),
    "is_alphanumeric": lambda c: c.isalnum() if c.isascii() else (True if (_uni_alpha(c) is True or _uni_num(c)) else _uni_alpha(c)),
    "is_numeric": lambda c: c.isdigit() if c.isascii() else _uni_num(c),
    "is_uppercase": lambda c: c.isupper() if c.isascii() else UNK,
    "is_lowercase": lambda c: c.islower() if c.isascii() else UNK,
}
ASCII_CUTS = (0x9, 0xE, 0x20, 0x21, 0x30, 0x3A, 0x41, 0x47, 0x5B, 0x61, 0x67, 0x7B, 0x7F, 0x80, 0x85, 0x86, 0xA0, 0xA1)


def char_classes(bodies, extra=()):
    """partition of the scalar values such that a function that looks at a character only through comparisons with the character
    literals occurring in `bodies` and through the std predicates above cannot tell two members of one class apart"""
    cuts = {0, 0xD800, 0xE000, 0x110000} | set(ASCII_CUTS) | set(extra)
    for cp in _RUST_WHITE_SPACE:
        cuts.update((cp, cp + 1))
    for body in bodies:
        for n in sir.walk(body):
            if n.get("k") == "lit" and n.get("t") == "char" and isinstance(n.get("v"), str) and len(n["v"]) == 1:
                cuts.update((ord(n["v"]), ord(n["v"]) + 1))
    cuts = sorted(c for c in cuts if 0 <= c <= 0x110000)
    return [(a, b - 1) for a, b in zip(cuts, cuts[1:]) if not (0xD800 <= a <= 0xDFFF)]


def char_predicate_table(fn, idx=None, helpers=None):
    """[(lo, hi, verdict)] for a `fn(char) -> bool`: verdict True / False / None (not decided) per class"""
    helpers = helpers or {}
    pn = [x for x in fn.param_names() if x]
    if len(pn) != 1:
        return None
    it = Interp(idx=idx, inline=helpers)
    out = []
    for lo, hi in char_classes([fn.body] + [h.body for h in helpers.values()]):
        vs = set()
        for cp in {lo, hi}:
            it.paths = 0
            try:
                outs = it.run(fn.body, {pn[0]: chr(cp)})
            except TooManyPaths:
                outs = []
            if not outs or any(o.tainted or not (o.value is True or o.value is False) for o in outs):
                vs.add(None)
            else:
                vs.update(o.value for o in outs)
        out.append((lo, hi, vs.pop() if len(vs) == 1 else None))
    return out


class TooManyPaths(Exception):
    pass


class St:
    __slots__ = ("env", "events", "tainted", "approx")

    def __init__(self, env=None, events=(), tainted=False, approx=False):
        self.env = env if env is not None else {}
        self.events = events
        self.tainted = tainted
        self.approx = approx

    def set(self, name, v):
        e = dict(self.env)
        e[name] = v
        return St(e, self.events, self.tainted, self.approx)

    def event(self, ev):
        return St(self.env, self.events + (ev,), self.tainted, self.approx)

    def taint(self):
        return St(self.env, self.events, True, self.approx)

    def cut(self):
        return St(self.env, self.events, self.tainted, True)


class Out:
    __slots__ = ("kind", "value", "st", "label")

    def __init__(self, kind, value, st, label=None):
        self.kind, self.value, self.st, self.label = kind, value, st, label

    @property
    def events(self):
        return self.st.events

    @property
    def tainted(self):
        return self.st.tainted

    @property
    def approx(self):
        return self.st.approx


def is_unknown(v):
    return v is FREE or v is UNK or v == FREE or v == UNK


def truth(v):
    """-> list of (bool, tainted)"""
    if v is True or v is False:
        return [(v, False)]
    if v == FREE:
        return [(True, False), (False, False)]
    return [(True, True), (False, True)]


class Interp:
    def __init__(self, hooks=None, idx=None, inline=None):
        """hooks(interp, e, st) -> None (not handled) or list of (value, st)
        inline: {function name: Fn} of helpers whose calls are evaluated by entering their bodies"""
        self.hooks = hooks
        self.idx = idx
        self.inline = inline or {}
        self.paths = 0
        self.depth = 0
        self.for_value = FREE     # what a `for` pattern / the parameter of an `all`/`any` closure is bound to
        self.max_paths = MAX_PATHS
        self.compound = None      # optional (place, op, current, operand) -> new value, for rule-specific symbolic arithmetic
        self.field_vars = set()   # field names tracked like variables (`self.a.flag` -> "$f:flag"), whatever their base

    # ------------------------------------------------------------------ entry
    def run(self, body, env=None, st=None):
        st = st or St(dict(env or {}))
        outs = self.ev(body, st)
        res = []
        for o in outs:
            if o.kind in ("val", "ret"):
                res.append(Out("ret" if o.kind == "ret" else "val", o.value, o.st))
            # a break/continue escaping the body is a shape we do not read
            else:
                res.append(Out("val", UNK, o.st.taint()))
        return res

    # ------------------------------------------------------------------ helpers
    def _vals(self, outs):
        return [o for o in outs if o.kind == "val"]

    def _seq(self, exprs, st):
        """evaluate expressions left to right -> list of ([values], st) plus escaping outcomes"""
        acc = [([], st)]
        esc = []
        for e in exprs:
            nxt = []
            for vals, s in acc:
                for o in self.ev(e, s):
                    if o.kind == "val":
                        nxt.append((vals + [o.value], o.st))
                    else:
                        esc.append(o)
            acc = nxt
        return acc, esc

    def _count(self, n=1):
        self.paths += n
        if self.paths > self.max_paths:
            raise TooManyPaths()

    # ------------------------------------------------------------------ patterns
    def match(self, p, v, env):
        """-> 'yes' / 'no' / 'maybe' ; binds into env (dict, mutated)"""
        k = p.get("k")
        if k == "p_wild" or k == "p_rest":
            return "yes"
        if k == "p_ident":
            nm = p["name"]
            if p.get("sub"):
                r = self.match(p["sub"], v, env)
                env[nm] = v
                return r
            if nm in ("true", "false"):
                if v is True or v is False:
                    return "yes" if (nm == "true") == v else "no"
                return "maybe"
            if nm == "None" and False:
                return "maybe"
            # an identifier pattern naming a unit variant / constant cannot be told from a binding here; upper-case initial = variant
            if nm[:1].isupper() and not nm.isupper():
                return self._match_variant(nm, (), v, env, None)
            if nm.isupper() or (nm.upper() == nm and "_" in nm):
                # an all-capitals identifier in a pattern is a constant, never a binding
                ct = sir.const_text({"k": "path", "segs": [nm], "s": nm})
                if ct is None or is_unknown(v):
                    return "maybe"
                return "yes" if v == ct else "no"
            env[nm] = v
            return "yes"
        if k == "p_ref":
            return self.match(p["pat"], v, env)
        if k == "p_type":
            return self.match(p["pat"], v, env)
        if k == "p_lit":
            lv = p["e"].get("v")
            if p["e"].get("t") == "bool":
                lv = bool(lv)
            if is_unknown(v):
                return "maybe"
            if isinstance(v, tuple):
                return "no"
            return "yes" if v == lv else "no"
        if k == "p_range":
            if is_unknown(v):
                return "maybe"
            lo, hi = p.get("lo"), p.get("hi")
            try:
                if lo is not None and v < lo.get("v"):
                    return "no"
                if hi is not None and (v > hi.get("v") if p.get("incl") else v >= hi.get("v")):
                    return "no"
                return "yes"
            except TypeError:
                return "maybe"
        if k == "p_or":
            res = "no"
            for c in p["cases"]:
                e2 = dict(env)
                r = self.match(c, v, e2)
                if r == "yes":
                    env.update(e2)
                    return "yes"
                if r == "maybe":
                    env.update(e2)
                    res = "maybe"
            return res
        if k == "p_tuple":
            if is_unknown(v):
                for e in p["elems"]:
                    self.match(e, v, env)
                return "maybe"
            if not (isinstance(v, tuple) and v and v[0] == "T"):
                return "maybe"
            return self._match_elems(p["elems"], v[1], env)
        if k == "p_slice":
            for e in p["elems"]:
                self.match(e, UNK if not is_unknown(v) else v, env)
            return "maybe"
        if k == "p_path":
            if p["segs"][-1] == "None" and len(p["segs"]) >= 2 and p["segs"][-2] not in ("Option", "option"):
                # a user enum's variant called `None` (`ForList::None`), not Option::None
                if is_unknown(v):
                    return "maybe"
                return "yes" if (isinstance(v, tuple) and v[:2] == ("E", "None")) else "no"
            return self._match_variant(p["segs"][-1], (), v, env, None)
        if k == "p_ts":
            return self._match_variant(p["segs"][-1], p["elems"], v, env, None)
        if k == "p_struct":
            return self._match_variant(p["segs"][-1], None, v, env, p)
        for b, _ in sir.pat_bindings(p):
            env[b] = UNK
        return "maybe"

    def _match_elems(self, pats, vals, env):
        pats = list(pats)
        if any(x.get("k") == "p_rest" for x in pats):
            i = [x.get("k") for x in pats].index("p_rest")
            head, tail = pats[:i], pats[i + 1:]
            vs = list(vals)
            pairs = list(zip(head, vs[:len(head)])) + (list(zip(tail, vs[len(vs) - len(tail):])) if tail else [])
        else:
            if len(pats) != len(vals):
                # arity unknown to us (fields we did not model): bind what we can
                pairs = list(zip(pats, list(vals) + [FREE] * (len(pats) - len(vals))))
            else:
                pairs = list(zip(pats, vals))
        res = "yes"
        for pp, vv in pairs:
            r = self.match(pp, vv, env)
            if r == "no":
                return "no"
            if r == "maybe":
                res = "maybe"
        return res

    def _match_variant(self, name, elems, v, env, struct_pat):
        def bind_all(val):
            if elems:
                for e in elems:
                    self.match(e, val, env)
            if struct_pat is not None:
                for f in struct_pat["fields"]:
                    self.match(f["pat"], val, env)
        if is_unknown(v):
            bind_all(v)
            return "maybe"
        if name == "None":
            return "yes" if v == NONE else "no"
        if name in ("Some", "Ok", "Err"):
            if v == NONE:
                return "no"
            if isinstance(v, tuple) and v and v[0] in ("Some", "Ok", "Err"):
                if v[0] != name:
                    return "no"
                return self.match(elems[0], v[1], env) if elems else "yes"
            return "maybe"
        if isinstance(v, tuple) and v and v[0] == "E":
            if v[1] != name:
                return "no"
            fields = v[2]
            if struct_pat is not None:
                fd = dict(fields) if fields and isinstance(fields[0], tuple) and len(fields[0]) == 2 and isinstance(fields[0][0], str) else {}
                res = "yes"
                for f in struct_pat["fields"]:
                    r = self.match(f["pat"], fd.get(f["name"], FREE), env)
                    if r == "no":
                        return "no"
                    if r == "maybe":
                        res = "maybe"
                return res
            if elems:
                vals = [x[1] if isinstance(x, tuple) and len(x) == 2 and isinstance(x[0], str) and False else x for x in fields]
                return self._match_elems(elems, vals, env)
            return "yes"
        if v is True or v is False or isinstance(v, (int, str)) or v == NONE or (isinstance(v, tuple) and v and v[0] in ("Some", "Ok", "Err", "T")):
            return "no"
        bind_all(UNK)
        return "maybe"

    # ------------------------------------------------------------------ expressions
    def ev(self, e, st):
        """-> list of Out"""
        self._count(0)
        if e is None:
            return [Out("val", UNIT, st)]
        if self.hooks is not None:
            h = self.hooks(self, e, st)
            if isinstance(h, St):
                st = h          # the hook only recorded something; evaluation continues normally
            elif h is not None:
                return [x if isinstance(x, Out) else Out("val", x[0], x[1]) for x in h]
        k = e.get("k")
        if k in ("call", "mac"):
            fc = sir.format_call(e)
            if fc is not None:
                return [Out("val", self._format_text(fc, st, exact=True), st)]
        m = getattr(self, "_e_" + k, None) if isinstance(k, str) else None
        if m is None:
            return [Out("val", UNK, st)]
        return m(e, st)

    def _format_text(self, pieces, st, exact=False):
        """text produced by format pieces under the abstract state; holes that are not constants stay as `{spec}` (or make the
        whole value UNK when exact=True)"""
        text = ""
        for p in pieces:
            if p[0] == "lit":
                text += p[1]
                continue
            spec = p[2] or ""
            vals = [o.value for o in self.ev(p[1], st) if o.kind == "val"] if p[1] is not None else []
            v = vals[0] if len(vals) == 1 else UNK
            if isinstance(v, str) and not spec:
                text += v
            elif isinstance(v, str) and len(v) == 1 and spec and spec[-1] in "xX":
                text += format(ord(v), spec)       # `c as u32` keeps the character as its abstract value
            elif isinstance(v, int) and not isinstance(v, bool):
                text += format(v, spec) if spec else str(v)
            elif exact:
                # the shape of the text is known, some holes are not: ("FMT", skeleton)
                rest = ""
                started = False
                for q in pieces:
                    if q is p:
                        started = True
                    if started:
                        rest += q[1] if q[0] == "lit" else "{%s}" % ((":" + q[2]) if q[2] else "")
                return ("FMT", text + rest)
            else:
                text += "{%s}" % ((":" + spec) if spec else "")
        return text

    def _e_lit(self, e, st):
        t = e.get("t")
        if t == "bool":
            return [Out("val", bool(e["v"]), st)]
        if t in ("str", "char", "int"):
            v = e.get("v")
            if t == "int":
                import re as _re
                m_ = _re.match(r"^(0x[0-9a-fA-F_]+|0o[0-7_]+|0b[01_]+|\d[\d_]*)", str(v))
                try:
                    v = int(m_.group(1).replace("_", ""), 0) if m_ else UNK
                except ValueError:
                    v = UNK
            return [Out("val", v, st)]
        return [Out("val", UNK, st)]

    def _e_paren(self, e, st):
        return self.ev(e["e"], st)

    def _e_ref(self, e, st):
        return self.ev(e["e"], st)

    def _e_cast(self, e, st):
        return self.ev(e["e"], st)

    def _e_path(self, e, st):
        segs = e["segs"]
        if len(segs) == 1:
            n = segs[0]
            if n in st.env:
                return [Out("val", st.env[n], st)]
            if n == "None":
                return [Out("val", NONE, st)]
            if n in ("true", "false"):
                return [Out("val", n == "true", st)]
            if n[:1].isupper() and not n.isupper():
                return [Out("val", ("E", n, ()), st)]
            if n.upper() == n and sir.const_text(e) is not None:
                return [Out("val", sir.const_text(e), st)]   # a text constant of the crate
            return [Out("val", UNK, st)]
        if segs[-1] == "None" and segs[-2] in ("Option", "option"):
            return [Out("val", NONE, st)]
        if segs[-1][:1].isupper() and not segs[-1].isupper():
            return [Out("val", ("E", segs[-1], ()), st)]   # unit variant
        return [Out("val", UNK, st)]

    def _e_tuple(self, e, st):
        acc, esc = self._seq(e["elems"], st)
        return [Out("val", ("T", tuple(vals)), s) for vals, s in acc] + esc

    def _e_struct(self, e, st):
        acc, esc = self._seq([f["e"] for f in e["fields"]], st)
        names = [f["name"] for f in e["fields"]]
        return [Out("val", ("E", e["segs"][-1], tuple(zip(names, vals))), s) for vals, s in acc] + esc

    def _place(self, l):
        """name under which an assignable place is tracked, or None"""
        while l.get("k") in ("paren", "ref") or (l.get("k") == "unary" and l["op"] == "*"):
            l = l["e"]
        if l.get("k") == "path" and len(l["segs"]) == 1:
            return l["segs"][0]
        if l.get("k") == "field" and l["name"] in self.field_vars:
            return "$f:" + l["name"]
        return None

    def _e_field(self, e, st):
        if e["name"] in self.field_vars:
            return [Out("val", st.env.get("$f:" + e["name"], UNK), st)]
        res = []
        for o in self.ev(e["base"], st):
            if o.kind != "val":
                res.append(o)
                continue
            v = o.value
            out = UNK if not is_unknown(v) else v
            if isinstance(v, tuple) and v and v[0] == "E":
                fd = dict(v[2]) if v[2] and isinstance(v[2][0], tuple) and len(v[2][0]) == 2 and isinstance(v[2][0][0], str) else {}
                if e["name"] in fd:
                    out = fd[e["name"]]
                elif e["name"].isdigit() and not fd and int(e["name"]) < len(v[2]):
                    out = v[2][int(e["name"])]
            elif isinstance(v, tuple) and v and v[0] == "T" and e["name"].isdigit() and int(e["name"]) < len(v[1]):
                out = v[1][int(e["name"])]
            res.append(Out("val", out, o.st))
        return res

    def _e_unary(self, e, st):
        res = []
        for o in self.ev(e["e"], st):
            if o.kind != "val":
                res.append(o)
                continue
            v = o.value
            if e["op"] == "*":
                res.append(o)
            elif e["op"] == "!":
                res.append(Out("val", (not v) if v is True or v is False else v if is_unknown(v) else UNK, o.st))
            elif e["op"] == "-" and isinstance(v, int) and not isinstance(v, bool):
                res.append(Out("val", -v, o.st))
            else:
                res.append(Out("val", UNK if not is_unknown(v) else v, o.st))
        return res

    def _fork_bool(self, v, st, refine=None):
        """-> list of (bool, st)"""
        res = []
        tv = truth(v)
        if len(tv) > 1:
            self._count(1)
        for b, tainted in tv:
            s = st.taint() if tainted else st
            if refine is not None and len(tv) > 1:
                s = s.set(refine[0], b if refine[1] else (not b))
            res.append((b, s))
        return res

    @staticmethod
    def _refinable(e):
        """condition is `x`, `*x`, `!x`: -> (name, polarity)"""
        pol = True
        while True:
            if e.get("k") in ("paren", "ref"):
                e = e["e"]
            elif e.get("k") == "unary" and e["op"] == "*":
                e = e["e"]
            elif e.get("k") == "unary" and e["op"] == "!":
                pol = not pol
                e = e["e"]
            else:
                break
        if e.get("k") == "path" and len(e["segs"]) == 1:
            return (e["segs"][0], pol)
        return None

    def cond(self, c, st):
        """-> list of (bool, st, escaping) : escaping outcomes are returned separately"""
        res, esc = [], []
        if c.get("k") == "paren":
            return self.cond(c["e"], st)
        if c.get("k") == "let":
            for o in self.ev(c["e"], st):
                if o.kind != "val":
                    esc.append(o)
                    continue
                env = dict(o.st.env)
                r = self.match(c["pat"], o.value, env)
                if r in ("yes", "maybe"):
                    s = St(env, o.st.events, o.st.tainted or (r == "maybe" and o.value == UNK), o.st.approx)
                    res.append((True, s))
                if r in ("no", "maybe"):
                    s = o.st.taint() if (r == "maybe" and o.value == UNK) else o.st
                    res.append((False, s))
                if r == "maybe":
                    self._count(1)
            return res, esc
        if c.get("k") == "binary" and c["op"] in ("&&", "||"):
            l, e1 = self.cond(c["l"], st)
            esc += e1
            for b, s in l:
                if (c["op"] == "&&") == b:
                    r, e2 = self.cond(c["r"], s)
                    esc += e2
                    res += r
                else:
                    res.append((b, s))
            return res, esc
        if c.get("k") == "unary" and c["op"] == "!":
            r, esc = self.cond(c["e"], st)
            return [(not b, s) for b, s in r], esc
        if c.get("k") == "binary" and c["op"] in ("==", "!="):
            # `x == "lit"` on an unknown variable: both outcomes, the variable becomes the literal where they are equal
            for a, b in ((c["l"], c["r"]), (c["r"], c["l"])):
                a1, b1 = sir.strip_ref(a), sir.strip_ref(b)
                while a1.get("k") == "unary" and a1["op"] == "*":
                    a1 = sir.strip_ref(a1["e"])
                if a1.get("k") == "path" and len(a1["segs"]) == 1 and is_unknown(st.env.get(a1["segs"][0], 0)) and b1.get("k") == "lit" and b1.get("t") in ("str", "char"):
                    self._count(1)
                    tainted = st.env[a1["segs"][0]] == UNK
                    s_eq = st.set(a1["segs"][0], b1["v"])
                    s_ne = st
                    if tainted:
                        s_eq, s_ne = s_eq.taint(), s_ne.taint()
                    eq = c["op"] == "=="
                    return [(eq, s_eq), (not eq, s_ne)], esc
        rf = self._refinable(c)
        for o in self.ev(c, st):
            if o.kind != "val":
                esc.append(o)
                continue
            res += self._fork_bool(o.value, o.st, rf if rf and rf[0] in o.st.env else None)
        return res, esc

    def _e_binary(self, e, st):
        op = e["op"]
        if op in ("&&", "||"):
            r, esc = self.cond(e, st)
            return [Out("val", b, s) for b, s in r] + esc
        if op in ("+=", "-=", "|=", "&=", "*=") and self._place(e["l"]) is not None:
            # compound assignment to a tracked place
            pl = self._place(e["l"])
            res = []
            for o in self.ev(e["r"], st):
                if o.kind != "val":
                    res.append(o)
                    continue
                cur, b = o.st.env.get(pl, UNK), o.value
                if self.compound is not None:
                    nv = self.compound(pl, op, cur, b)
                elif is_unknown(cur) or is_unknown(b):
                    nv = UNK if (cur == UNK or b == UNK) else FREE
                else:
                    try:
                        nv = {"+=": lambda x, y: x + y, "-=": lambda x, y: x - y, "|=": lambda x, y: x or y if isinstance(x, bool) else x | y,
                              "&=": lambda x, y: x and y if isinstance(x, bool) else x & y, "*=": lambda x, y: x * y}[op](cur, b)
                    except TypeError:
                        nv = UNK
                res.append(Out("val", UNIT, o.st.set(pl, nv)))
            return res
        acc, esc = self._seq([e["l"], e["r"]], st)
        res = list(esc)
        for (a, b), s in acc:
            if is_unknown(a) or is_unknown(b):
                v = UNK if (a == UNK or b == UNK) else FREE
                if op not in ("==", "!=", "<", ">", "<=", ">="):
                    v = UNK if v == UNK else FREE
                # Some(x) == None etc. can be decided even with an unknown payload
                if op in ("==", "!=") and not is_unknown(a) and not is_unknown(b):
                    pass
                res.append(Out("val", v, s))
                continue
            try:
                if op == "==":
                    v = self._eq(a, b)
                elif op == "!=":
                    v = self._eq(a, b)
                    v = (not v) if v is True or v is False else v
                elif op == "<":
                    v = a < b
                elif op == ">":
                    v = a > b
                elif op == "<=":
                    v = a <= b
                elif op == ">=":
                    v = a >= b
                elif op == "+":
                    v = a + b
                elif op == "-":
                    v = a - b
                else:
                    v = UNK
            except TypeError:
                v = UNK
            res.append(Out("val", v, s))
        return res

    def _eq(self, a, b):
        if is_unknown(a) or is_unknown(b):
            return UNK if (a == UNK or b == UNK) else FREE
        if isinstance(a, tuple) and isinstance(b, tuple) and a and b and a[0] == b[0] and a[0] in ("Some", "Ok", "Err"):
            return self._eq(a[1], b[1])
        if isinstance(a, tuple) and isinstance(b, tuple) and a and b and a[0] == b[0] == "T" and len(a[1]) == len(b[1]):
            r = True
            for x, y in zip(a[1], b[1]):
                q = self._eq(x, y)
                if q is False:
                    return False
                if q is not True:
                    r = q
            return r
        if isinstance(a, tuple) and isinstance(b, tuple) and a and b and a[0] == b[0] == "E":
            if a[1] != b[1]:
                return False
            return True if not a[2] and not b[2] else FREE
        return a == b

    def _e_assign(self, e, st):
        res = []
        for o in self.ev(e["r"], st):
            if o.kind != "val":
                res.append(o)
                continue
            pl = self._place(e["l"])
            if pl is not None:
                res.append(Out("val", UNIT, o.st.set(pl, o.value)))
            elif e["l"].get("k") == "tuple":
                # destructuring assignment `(a, self.b) = (x, y)`
                s2 = o.st
                v = o.value
                for i, le in enumerate(e["l"]["elems"]):
                    pli = self._place(le)
                    if pli is not None:
                        s2 = s2.set(pli, v[1][i] if isinstance(v, tuple) and v[:1] == ("T",) and i < len(v[1]) else (v if is_unknown(v) else UNK))
                res.append(Out("val", UNIT, s2))
            else:
                res.append(Out("val", UNIT, o.st))
        return res

    def _e_block(self, e, st):
        outs = [Out("val", UNIT, st)]
        n = len(e["stmts"])
        saved = set(st.env)
        for i, stt in enumerate(e["stmts"]):
            nxt = []
            for o in outs:
                if o.kind != "val":
                    nxt.append(o)
                    continue
                nxt += self._stmt(stt, o.st, last=(i == n - 1))
            outs = nxt
        return outs

    def _stmt(self, stt, st, last):
        k = stt.get("k")
        if k == "item":
            return [Out("val", UNIT, st)]
        if k == "local":
            if stt.get("init") is None:
                env = dict(st.env)
                for b, _ in sir.pat_bindings(stt["pat"]):
                    env[b] = UNK
                return [Out("val", UNIT, St(env, st.events, st.tainted, st.approx))]
            res = []
            for o in self.ev(stt["init"], st):
                if o.kind != "val":
                    res.append(o)
                    continue
                env = dict(o.st.env)
                r = self.match(stt["pat"], o.value, env)
                if stt.get("else") is not None:
                    if r in ("yes", "maybe"):
                        res.append(Out("val", UNIT, St(env, o.st.events, o.st.tainted or (r == "maybe" and o.value == UNK), o.st.approx)))
                    if r in ("no", "maybe"):
                        s = o.st.taint() if (r == "maybe" and o.value == UNK) else o.st
                        for o2 in self.ev(stt["else"], s):
                            res.append(o2 if o2.kind != "val" else Out("val", UNK, o2.st.taint()))
                    if r == "maybe":
                        self._count(1)
                else:
                    res.append(Out("val", UNIT, St(env, o.st.events, o.st.tainted, o.st.approx)))
            return res
        if k == "expr":
            outs = self.ev(stt["e"], st)
            if last and not stt.get("semi"):
                return outs
            return [Out("val", UNIT, o.st) if o.kind == "val" else o for o in outs]
        return self.ev(stt, st)

    def _e_if(self, e, st):
        res = []
        conds, esc = self.cond(e["cond"], st)
        res += esc
        for b, s in conds:
            if b:
                res += self.ev(e["then"], s)
            elif e.get("else") is not None:
                res += self.ev(e["else"], s)
            else:
                res.append(Out("val", UNIT, s))
        return res

    def _e_match(self, e, st):
        res = []
        for o in self.ev(e["e"], st):
            if o.kind != "val":
                res.append(o)
                continue
            remaining = [o.st]
            v = o.value
            matched_definitely = False
            for a in e["arms"]:
                if matched_definitely:
                    break
                env = dict(o.st.env)
                r = self.match(a["pat"], v, env)
                if r == "no":
                    continue
                base = St(env, o.st.events, o.st.tainted or (r == "maybe" and v == UNK), o.st.approx)
                if r == "maybe":
                    self._count(1)
                    sv = sir.strip_ref(e["e"])
                    while sv.get("k") == "unary" and sv["op"] == "*":
                        sv = sir.strip_ref(sv["e"])
                    if sv.get("k") == "path" and len(sv["segs"]) == 1 and a["pat"].get("k") == "p_lit" and a["pat"]["e"].get("t") in ("str", "char"):
                        base = base.set(sv["segs"][0], a["pat"]["e"]["v"])
                if a.get("guard") is not None:
                    gs, esc = self.cond(a["guard"], base)
                    res += esc
                    took_all = True
                    for b, s in gs:
                        if b:
                            res += self.ev(a["body"], s)
                        else:
                            took_all = False
                    if r == "yes" and took_all and gs:
                        matched_definitely = True
                else:
                    res += self.ev(a["body"], base)
                    if r == "yes":
                        matched_definitely = True
        return res

    def _e_return(self, e, st):
        if e.get("e") is None:
            return [Out("ret", UNIT, st)]
        return [Out("ret", o.value, o.st) if o.kind == "val" else o for o in self.ev(e["e"], st)]

    def _e_break(self, e, st):
        if e.get("e") is None:
            return [Out("brk", UNIT, st, e.get("label"))]
        return [Out("brk", o.value, o.st, e.get("label")) if o.kind == "val" else o for o in self.ev(e["e"], st)]

    def _e_continue(self, e, st):
        return [Out("cont", UNIT, st, e.get("label"))]

    def _e_try(self, e, st):
        res = []
        for o in self.ev(e["e"], st):
            if o.kind != "val":
                res.append(o)
                continue
            v = o.value
            if isinstance(v, tuple) and v and v[0] in ("Some", "Ok"):
                res.append(Out("val", v[1], o.st))
            elif v == NONE:
                res.append(Out("ret", NONE, o.st))
            elif isinstance(v, tuple) and v and v[0] == "Err":
                res.append(Out("ret", v, o.st))
            else:
                # an unknown Result/Option: the error path leaves the function with an error, which is not a decision of interest
                res.append(Out("val", v, o.st))
                res.append(Out("ret", ("Err", FREE) if v == FREE else UNK, o.st.event(("$error-exit",))))
        return res

    def _loop_once(self, body, st, bind=None):
        """a loop body is entered zero times or once (then left); the path is marked approximate"""
        res = [Out("val", UNIT, st.event(("for-skip",)))]
        s1 = st.cut().event(("for-enter",))
        if bind is not None:
            env = dict(s1.env)
            self.match(bind, self.for_value, env)
            s1 = St(env, s1.events, s1.tainted, True)
        self._count(1)
        for o in self.ev(body, s1):
            if o.kind in ("val", "cont"):
                res.append(Out("val", UNIT, o.st))
            elif o.kind == "brk":
                res.append(Out("val", o.value, o.st))
            else:
                res.append(o)
        return res

    def _e_for(self, e, st):
        res = []
        for o in self.ev(e["e"], st):
            if o.kind != "val":
                res.append(o)
                continue
            if isinstance(o.value, tuple) and o.value[:1] == ("A",):
                # a literal array: the body runs once per element, in order
                live = [o.st]
                for el in o.value[1]:
                    nxt = []
                    for s_ in live:
                        env = dict(s_.env)
                        self.match(e["pat"], el, env)
                        self._count(1)
                        for o2 in self.ev(e["body"], St(env, s_.events, s_.tainted, s_.approx)):
                            if o2.kind in ("val", "cont"):
                                nxt.append(o2.st)
                            elif o2.kind == "brk":
                                res.append(Out("val", UNIT, o2.st))
                            else:
                                res.append(o2)
                    live = nxt
                res += [Out("val", UNIT, s_) for s_ in live]
                continue
            res += self._loop_once(e["body"], o.st, e["pat"])
        return res

    def _e_while(self, e, st):
        res = []
        conds, esc = self.cond(e["cond"], st)
        res += esc
        for b, s in conds:
            if not b:
                res.append(Out("val", UNIT, s))
            else:
                for o in self.ev(e["body"], s.cut()):
                    if o.kind in ("val", "cont", "brk"):
                        res.append(Out("val", UNIT, o.st))
                    else:
                        res.append(o)
        return res

    def _e_loop(self, e, st):
        res = []
        for o in self.ev(e["body"], st.cut()):
            if o.kind == "brk":
                res.append(Out("val", o.value, o.st))
            elif o.kind in ("val", "cont"):
                res.append(Out("val", UNK, o.st))
            else:
                res.append(o)
        return res

    def _e_closure(self, e, st):
        return [Out("val", ("closure", id(e), e), st)]

    def call_closure(self, clo, args, st):
        node = clo[2]
        env = dict(st.env)
        for p, a in zip(node["params"], list(args) + [FREE] * len(node["params"])):
            self.match(p, a, env)
        self.depth += 1
        try:
            if self.depth > 6:
                return [Out("val", UNK, st.taint())]
            outs = self.ev(node["body"], St(env, st.events, st.tainted, st.approx))
        finally:
            self.depth -= 1
        res = []
        for o in outs:
            # locals assigned inside the closure that exist outside are captured by reference
            env2 = dict(st.env)
            for k_ in st.env:
                if k_ in o.st.env:
                    env2[k_] = o.st.env[k_]
            s = St(env2, o.st.events, o.st.tainted, o.st.approx)
            res.append(Out("val", o.value if o.kind in ("val", "ret") else UNK, s))
        return res

    def _e_call(self, e, st):
        f = e["f"]
        name = f["segs"][-1] if f.get("k") == "path" else None
        acc, esc = self._seq(e["args"], st)
        res = list(esc)
        for vals, s in acc:
            if name in ("replace", "take", "swap") and f.get("k") == "path" and (len(f["segs"]) == 1 or f["segs"][-2] == "mem") and e["args"]:
                pl = self._place(e["args"][0])
                if pl is not None and name in ("replace", "take"):
                    old_v = s.env.get(pl, UNK)
                    res.append(Out("val", old_v, s.set(pl, vals[1] if name == "replace" and len(vals) > 1 else UNK if name == "replace" else False if old_v is True or old_v is False else UNK)))
                    continue
                res.append(Out("val", UNK, s))
                continue
            if name in ("Some", "Ok", "Err") and len(vals) == 1:
                res.append(Out("val", (name, vals[0]), s))
            elif f.get("k") == "path" and len(f["segs"]) == 1 and isinstance(s.env.get(name), tuple) and s.env[name][:1] == ("closure",):
                res += self.call_closure(s.env[name], vals, s)
            elif name in self.inline and f.get("k") == "path":
                res += self.call_fn(self.inline[name], vals, s)
            elif name and name[:1].isupper() and f.get("k") == "path":
                res.append(Out("val", ("E", name, tuple(vals)), s))
            else:
                res.append(Out("val", UNK, s))
        return res

    def call_fn(self, fn, args, st, self_val=None):
        env = {}
        names = fn.param_names()
        vals = list(args)
        if names and names[0] == "self":
            env["self"] = self_val if self_val is not None else FREE
            names = names[1:]
        for n_, a in zip(names, vals + [FREE] * len(names)):
            if n_:
                env[n_] = a
        self.depth += 1
        try:
            if self.depth > 6:
                return [Out("val", UNK, st.taint())]
            outs = self.ev(fn.body, St(env, st.events, st.tainted, st.approx))
        finally:
            self.depth -= 1
        return [Out("val", o.value if o.kind in ("val", "ret") else UNK, St(st.env, o.st.events, o.st.tainted, o.st.approx)) for o in outs]

    def call_method(self, fn, args, st):
        """like call_fn, but the tracked fields (`$f:..`) are shared with the caller: the callee works on the same object"""
        env = {k_: v_ for k_, v_ in st.env.items() if k_.startswith("$")}
        env["self"] = st.env.get("self", FREE)
        names = [n_ for n_ in fn.param_names() if n_ != "self"]
        for n_, a in zip(names, list(args) + [FREE] * len(names)):
            if n_:
                env[n_] = a
        self.depth += 1
        try:
            if self.depth > 6:
                return [Out("val", UNK, st.taint())]
            outs = self.ev(fn.body, St(env, st.events, st.tainted, st.approx))
        finally:
            self.depth -= 1
        res = []
        for o in outs:
            env2 = dict(st.env)
            for k_, v_ in o.st.env.items():
                if k_.startswith("$"):
                    env2[k_] = v_
            res.append(Out("val", o.value if o.kind in ("val", "ret") else UNK, St(env2, o.st.events, o.st.tainted, o.st.approx)))
        return res

    def _e_mcall(self, e, st):
        m = e["m"]
        res = []
        wf = sir.write_fmt_call(e)
        if wf is not None:
            text = self._format_text(wf[1], st)
            return [Out("val", ("Ok", UNIT), st.event(("write", text)))]
        if m in ("push", "write_char") and len(e["args"]) == 1:
            vals = [o.value for o in self.ev(e["args"][0], st) if o.kind == "val"]
            if len(vals) == 1 and isinstance(vals[0], str) and len(vals[0]) == 1:
                return [Out("val", UNIT if m == "push" else ("Ok", UNIT), st.event(("write", vals[0])))]
        if m in self.inline and e["recv"].get("k") == "path" and e["recv"]["segs"] == ["self"] and self.inline[m].params and self.inline[m].params[0].get("self"):
            # a private method of the same type: entered with the same tracked fields
            acc, esc = self._seq(e["args"], st)
            res += esc
            for vals, s2 in acc:
                res += self.call_method(self.inline[m], vals, s2)
            return res
        if m == "take" and not e["args"]:
            # Option::take on a tracked place: the value moves out, None stays behind
            pl = self._place(e["recv"])
            if pl is not None and pl in st.env:
                cur = st.env[pl]
                if cur == NONE or (isinstance(cur, tuple) and cur[:1] == ("Some",)):
                    return [Out("val", cur, st.set(pl, NONE))]
                if cur == FREE:
                    return [Out("val", FREE, st)]
        if m in self.inline and self.inline[m].params and self.inline[m].params[0].get("self") and not (e["recv"].get("k") == "path" and e["recv"]["segs"] == ["self"]):
            # a method of another value (`x.helper(..)`): entered with that value as `self`
            for o in self.ev(e["recv"], st):
                if o.kind != "val":
                    res.append(o)
                    continue
                acc, esc = self._seq(e["args"], o.st)
                res += esc
                for vals, s2 in acc:
                    res += self.call_fn(self.inline[m], vals, s2, self_val=o.value)
            return res
        for o in self.ev(e["recv"], st):
            if o.kind != "val":
                res.append(o)
                continue
            v, s = o.value, o.st
            some = isinstance(v, tuple) and v and v[0] in ("Some", "Ok")
            none = v == NONE or (isinstance(v, tuple) and v and v[0] == "Err")
            if isinstance(v, tuple) and v[:1] == ("A",) and not e["args"] and m in ("len", "is_empty", "first", "last", "enumerate", "rev"):
                # a literal array / slice of known elements
                els = v[1]
                if m == "len":
                    res.append(Out("val", len(els), s))
                elif m == "is_empty":
                    res.append(Out("val", len(els) == 0, s))
                elif m == "first":
                    res.append(Out("val", ("Some", els[0]) if els else NONE, s))
                elif m == "last":
                    res.append(Out("val", ("Some", els[-1]) if els else NONE, s))
                elif m == "enumerate":
                    res.append(Out("val", ("A", tuple(("T", (i_, el_)) for i_, el_ in enumerate(els))), s))
                else:
                    res.append(Out("val", ("A", tuple(reversed(els))), s))
                continue
            if m in ("as_ref", "as_mut", "clone", "cloned", "copied", "as_deref", "as_deref_mut", "borrow", "to_owned", "iter", "into_iter", "by_ref", "as_str", "into", "to_string", "as_bytes") and not e["args"]:
                res.append(Out("val", v, s))
            elif m in ("is_some", "is_ok") and not e["args"]:
                res.append(Out("val", True if some else False if none else v if is_unknown(v) else UNK, s))
            elif m in ("is_none", "is_err") and not e["args"]:
                res.append(Out("val", False if some else True if none else v if is_unknown(v) else UNK, s))
            elif m in ("unwrap", "expect") :
                res.append(Out("val", v[1] if some else v if is_unknown(v) else UNK, s))
            elif m in ("unwrap_or", "unwrap_or_default", "unwrap_or_else") :
                if some:
                    res.append(Out("val", v[1], s))
                elif none and m == "unwrap_or" and e["args"]:
                    res += self.ev(e["args"][0], s)
                elif none and m == "unwrap_or_else" and e["args"] and e["args"][0].get("k") == "closure":
                    res += self.call_closure(("closure", 0, e["args"][0]), [], s)
                else:
                    res.append(Out("val", v if is_unknown(v) else UNK, s))
            elif isinstance(v, tuple) and v[:1] == ("R",) and m == "contains" and len(e["args"]) == 1:
                for o2 in self.ev(e["args"][0], s):
                    if o2.kind != "val":
                        res.append(o2)
                        continue
                    x = o2.value
                    if is_unknown(x):
                        res.append(Out("val", x, o2.st))
                        continue
                    try:
                        r_ = (v[1] is None or v[1] <= x) and (v[2] is None or (x <= v[2] if v[3] else x < v[2]))
                    except TypeError:
                        r_ = UNK
                    res.append(Out("val", r_, o2.st))
            elif isinstance(v, str) and len(v) == 1 and m in CHAR_PREDICATES and not e["args"]:
                res.append(Out("val", CHAR_PREDICATES[m](v), s))
            elif isinstance(v, str) and len(v) == 1 and m in ("to_ascii_uppercase", "to_ascii_lowercase") and not e["args"]:
                res.append(Out("val", (v.upper() if m.endswith("uppercase") else v.lower()) if v.isascii() else v, s))
            elif m in ("map", "and_then", "map_or", "map_or_else", "is_some_and", "is_none_or", "filter", "then_some", "then", "ok_or", "ok_or_else", "ok"):
                res += self._option_combinator(e, m, v, s, some, none)
            elif m in ("all", "any") and len(e["args"]) == 1 and e["args"][0].get("k") == "closure":
                # over an unknown number of elements: none (all -> true, any -> false), or at least one of the kind `for_value`
                res.append(Out("val", m == "all", s.event(("for-skip",))))
                self._count(1)
                for o2 in self.call_closure(("closure", 0, e["args"][0]), [self.for_value], s.cut().event(("for-enter",))):
                    if m == "all":
                        res.append(Out("val", False if o2.value is False else FREE if o2.value is True or o2.value == FREE else UNK, o2.st))
                    else:
                        res.append(Out("val", True if o2.value is True else FREE if o2.value is False or o2.value == FREE else UNK, o2.st))
            elif isinstance(v, tuple) and v[:1] == ("closure",):
                acc, esc = self._seq(e["args"], s)
                res += esc
                for vals, s2 in acc:
                    res += self.call_closure(v, vals, s2)
            else:
                # unknown method: arguments are still evaluated for closures that write (kept opaque) - result unknown
                res.append(Out("val", FREE if v == FREE and m in ("len", "is_empty", "first", "last", "next", "get", "contains", "all", "any") else UNK, s))
        return res

    def _option_combinator(self, e, m, v, s, some, none):
        args = e["args"]

        def clo(i):
            return args[i] if len(args) > i else None

        def apply(cnode, val, st_):
            if cnode is None:
                return [Out("val", UNK, st_)]
            if cnode.get("k") == "closure":
                return self.call_closure(("closure", 0, cnode), [val], st_)
            if cnode.get("k") == "path":
                # a function value such as `Ident::is_start_char`
                if cnode["segs"][-1] in ("Some", "Ok", "Err"):
                    return [Out("val", (cnode["segs"][-1], val), st_)]
                if cnode["segs"][-1] in self.inline:
                    return self.call_fn(self.inline[cnode["segs"][-1]], [val], st_)
            return [Out("val", UNK, st_)]
        if m == "then_some" or m == "then":
            out = []
            for b, s2 in self._fork_bool(v, s):
                if not b:
                    out.append(Out("val", NONE, s2))
                elif m == "then_some":
                    out += [Out("val", ("Some", o.value), o.st) if o.kind == "val" else o for o in self.ev(args[0], s2)]
                else:
                    out += [Out("val", ("Some", o.value), o.st) for o in apply(clo(0), UNIT, s2)]
            return out
        if not some and not none:
            # unknown Option: both branches
            if is_unknown(v):
                self._count(1)
                inner = FREE if v == FREE else UNK
                return self._option_combinator(e, m, ("Some", inner), s if v == FREE else s.taint(), True, False) + \
                    self._option_combinator(e, m, NONE, s if v == FREE else s.taint(), False, True)
            return [Out("val", UNK, s)]
        if m == "map":
            return [Out("val", v, s)] if none else [Out("val", (v[0], o.value), o.st) for o in apply(clo(0), v[1], s)]
        if m == "and_then":
            return [Out("val", v, s)] if none else apply(clo(0), v[1], s)
        if m == "map_or":
            return self.ev(args[0], s) if none else apply(clo(1), v[1], s)
        if m == "map_or_else":
            return apply(clo(0), UNIT, s) if none else apply(clo(1), v[1], s)
        if m == "is_some_and":
            return [Out("val", False, s)] if none else apply(clo(0), v[1], s)
        if m == "is_none_or":
            return [Out("val", True, s)] if none else apply(clo(0), v[1], s)
        if m == "filter":
            if none:
                return [Out("val", v, s)]
            out = []
            for o in apply(clo(0), v[1], s):
                for b, s2 in self._fork_bool(o.value, o.st):
                    out.append(Out("val", v if b else NONE, s2))
            return out
        if m == "ok":
            return [Out("val", ("Some", v[1]) if some else NONE, s)]
        if m in ("ok_or", "ok_or_else"):
            return [Out("val", ("Ok", v[1]) if some else ("Err", FREE), s)]
        return [Out("val", UNK, s)]

    def _e_mac(self, e, st):
        nm = e.get("name")
        if nm in ("unreachable", "panic", "todo", "unimplemented"):
            return []   # the path ends
        return [Out("val", UNK, st)]

    def _e_index(self, e, st):
        return [Out("val", UNK, st)]

    def _e_range(self, e, st):
        lo = [o.value for o in self.ev(e["from"], st) if o.kind == "val"] if e.get("from") is not None else [None]
        hi = [o.value for o in self.ev(e["to"], st) if o.kind == "val"] if e.get("to") is not None else [None]
        if len(lo) == 1 and len(hi) == 1 and not is_unknown(lo[0]) and not is_unknown(hi[0]):
            return [Out("val", ("R", lo[0], hi[0], bool(e.get("incl"))), st)]
        return [Out("val", UNK, st)]

    def _e_array(self, e, st):
        if not e.get("elems") or len(e["elems"]) > 8:
            return [Out("val", UNK, st)]
        acc, esc = self._seq(e["elems"], st)
        return [Out("val", ("A", tuple(vals)), s) for vals, s in acc] + esc
