"""obligations that one property shares with another: the same code carries both, so the same rule decides both;
the key is re-labelled so that a report names the property it is raised for"""


def relabel(obs, old, new, only=None):
    out = []
    for x in obs:
        if not x["key"].startswith(old):
            continue
        if only is not None and not only(x["key"]):
            continue
        x = dict(x)
        x["key"] = new + x["key"][len(old):]
        out.append(x)
    return out
