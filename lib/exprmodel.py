"""Type-directed model of the expression AST: which fields of which variant hold child expressions.
Computed from the enum definitions in the (expanded) crate on every run - never a frozen list."""
import re
import sir


def _kind(ty, enums):
    """classify a field type: ('one', 'Expression') / ('list', 'Expression'|'ObjectFieldKind'|...) / None"""
    t = ty.replace(" ", "")
    m = re.fullmatch(r"(?:Box<)?(\w+)>?", t)
    if m and m.group(1) in enums:
        return ("one", m.group(1))
    m = re.fullmatch(r"Vec<(?:Box<)?(\w+)>?>", t)
    if m and m.group(1) in enums:
        return ("list", m.group(1))
    m = re.fullmatch(r"Option<(?:Box<)?(\w+)>?>", t)
    if m and m.group(1) in enums:
        return ("opt", m.group(1))
    return None


class ExprModel:
    def __init__(self, idx):
        self.expr = idx.enum("Expression")
        if self.expr is None:
            raise LookupError("enum Expression not found")
        # enums reachable from Expression through fields
        names = {"Expression"}
        changed = True
        self.enums = {"Expression": self.expr}
        while changed:
            changed = False
            for en in list(self.enums.values()):
                for v in en["variants"]:
                    for f in v["fields"]:
                        for cand in re.findall(r"\w+", f["ty"]):
                            if cand not in names and idx.enum(cand) is not None and cand.endswith("FieldKind"):
                                names.add(cand)
                                self.enums[cand] = idx.enum(cand)
                                changed = True
        self.children = {}  # enum -> variant -> [(field, kind, target_enum)]
        for ename, en in self.enums.items():
            self.children[ename] = {}
            for v in en["variants"]:
                cs = []
                for f in v["fields"]:
                    k = _kind(f["ty"], names)
                    if k:
                        cs.append((f["name"], k[0], k[1]))
                self.children[ename][v["name"]] = cs
        self.variants = [v["name"] for v in self.expr["variants"]]

    def child_fields(self, variant, enum="Expression"):
        return self.children[enum].get(variant, [])

    def binary_variants(self):
        return [v for v in self.variants if [c[0] for c in self.child_fields(v)] == ["left", "right"]]

    def unary_variants(self):
        return [v for v in self.variants if [c[0] for c in self.child_fields(v)] == ["value"] and v != "ToStringWithoutUndefined"]


def find_expression_matches(fn, model, min_variants=30):
    """`match` nodes in fn whose arms name at least min_variants variants of Expression."""
    out = []
    for n in sir.walk(fn.body):
        if n.get("k") == "match":
            vs = set()
            for a in n["arms"]:
                for v in sir.pat_variants(a["pat"]):
                    if v in model.children["Expression"]:
                        vs.add(v)
            if len(vs) >= min_variants:
                out.append((n, vs))
    return out


def arm_table(match_node, model):
    """variant -> (arm, pattern-case) for the arms of a match over Expression."""
    table = {}
    for a in match_node["arms"]:
        cases = a["pat"]["cases"] if a["pat"].get("k") == "p_or" else [a["pat"]]
        for c in cases:
            c0 = c
            while c0.get("k") == "p_ref":
                c0 = c0["pat"]
            if c0.get("k") in ("p_struct", "p_ts", "p_path"):
                v = c0["segs"][-1]
                if v in model.children["Expression"]:
                    table.setdefault(v, []).append((a, c0))
            elif c0.get("k") == "p_wild" or (c0.get("k") == "p_ident" and not c0.get("sub")):
                table.setdefault("_", []).append((a, c0))
    return table


def bound_fields(case):
    """field name -> binding name for a struct pattern case (`left: x` -> {'left': 'x'})."""
    out = {}
    if case.get("k") == "p_struct":
        for f in case["fields"]:
            p = f["pat"]
            while p.get("k") == "p_ref":
                p = p["pat"]
            if p.get("k") == "p_ident":
                out[f["name"]] = p["name"]
            elif p.get("k") == "p_wild":
                out[f["name"]] = None
    return out
