"""A small bracket-aware reader for the *signatures* of glass-easel/src/tmpl/proc_gen_wrapper.ts
(type aliases of function types and members of class ProcGenWrapper). No TypeScript front end is installed;
only parameter lists are read, never bodies."""
import re


def _match(text, i, open_ch, close_ch):
    """index of the bracket matching text[i] == open_ch"""
    depth = 0
    j = i
    n = len(text)
    q = None
    while j < n:
        c = text[j]
        if q:
            if c == "\\":
                j += 2
                continue
            if c == q:
                q = None
        elif c in "'\"`":
            q = c
        elif c == open_ch:
            depth += 1
        elif c == close_ch:
            depth -= 1
            if depth == 0:
                return j
        j += 1
    return -1


def split_top(s, sep=","):
    out = []
    depth = 0
    cur = []
    q = None
    i = 0
    while i < len(s):
        c = s[i]
        if q:
            cur.append(c)
            if c == q:
                q = None
        elif c in "'\"`":
            q = c
            cur.append(c)
        elif c in "([{<":
            depth += 1
            cur.append(c)
        elif c in ")]}>":
            # `=>` is not a closing bracket
            if c == ">" and i > 0 and s[i - 1] == "=":
                cur.append(c)
            else:
                depth -= 1
                cur.append(c)
        elif c == sep and depth == 0:
            out.append("".join(cur))
            cur = []
        else:
            cur.append(c)
        i += 1
    if "".join(cur).strip():
        out.append("".join(cur))
    return [x.strip() for x in out if x.strip()]


def parse_params(plist):
    """'a: T, b?: U' -> [{'name','optional','type'}]"""
    out = []
    for p in split_top(plist):
        m = re.match(r"^(?:\.\.\.)?(\w+)(\?)?\s*(?::\s*(.*))?$", p, re.S)
        if not m:
            continue
        ty = (m.group(3) or "").strip()
        opt = bool(m.group(2)) or re.search(r"=\s*[^>]", ty.split("=>")[0]) is not None and "=>" not in ty
        out.append({"name": m.group(1), "optional": bool(m.group(2)), "type": " ".join(ty.split())})
    return out


def strip_comments(ts):
    ts = re.sub(r"/\*.*?\*/", "", ts, flags=re.S)
    ts = re.sub(r"(^|[^:])//[^\n]*", r"\1", ts)
    return ts


class Proto:
    def __init__(self, ts):
        self.ts = strip_comments(ts)
        self.types = {}    # alias name -> params of the function type
        self.rets = {}
        self.members = {}  # ProcGenWrapper member -> params
        self._types()
        self._members()

    def _types(self):
        for m in re.finditer(r"(?:export\s+)?type\s+(\w+)\s*=\s*(?:<[^>]*>\s*)?\(", self.ts):
            i = m.end() - 1
            j = _match(self.ts, i, "(", ")")
            if j < 0:
                continue
            rest = self.ts[j + 1:j + 40]
            if not re.match(r"\s*=>", rest):
                continue
            self.types[m.group(1)] = parse_params(self.ts[i + 1:j])
            # return type text up to the next blank line
            k = self.ts.find("=>", j)
            self.rets[m.group(1)] = self.ts[k + 2:k + 200]

    def _members(self):
        m = re.search(r"export\s+class\s+ProcGenWrapper\s*\{", self.ts)
        if not m:
            return
        i = m.end() - 1
        j = _match(self.ts, i, "{", "}")
        body = self.ts[i + 1:j]
        # members at depth 1 of the class body
        depth = 0
        k = 0
        n = len(body)
        while k < n:
            c = body[k]
            if c in "{([":
                close = {"{": "}", "(": ")", "[": "]"}[c]
                e = _match(body, k, c, close)
                if e < 0:
                    break
                k = e + 1
                continue
            mm = re.match(r"(\w+)\s*(?:=\s*)?(?:<[^>(]*>\s*)?\(", body[k:])
            if mm and (k == 0 or body[k - 1] in " \n\t;}"):
                name = mm.group(1)
                p0 = k + mm.end() - 1
                p1 = _match(body, p0, "(", ")")
                if p1 > 0 and name not in ("if", "for", "while", "switch", "return", "constructor", "function"):
                    self.members[name] = parse_params(body[p0 + 1:p1])
                    k = p1 + 1
                    continue
            k += 1

    def arity(self, params):
        req = sum(1 for p in params if not p["optional"] and "undefined" not in p["type"].split("=>")[0].replace(" ", "").split("|"))
        req_strict = sum(1 for p in params if not p["optional"])
        return req, req_strict, len(params)
