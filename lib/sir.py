"""Syntax-IR helpers (over the JSON produced by tools/srcfacts) and MIR-fact helpers."""
import glob, json, os, re


# ----------------------------------------------------------------------------- generic tree walking

def _children_unordered(n, out):
    if isinstance(n, dict):
        for key, v in n.items():
            if key in ("sp", "msp", "namesp"):
                continue
            if isinstance(v, dict):
                if "k" in v:
                    out.append(v)
                else:
                    _children_unordered(v, out)
            elif isinstance(v, list):
                for x in v:
                    if isinstance(x, dict):
                        if "k" in x:
                            out.append(x)
                        else:
                            _children_unordered(x, out)


def children(n):
    """Direct child nodes (dicts with 'k') of a node, in *source order* (the JSON maps are key-sorted,
    so order is re-established from the spans)."""
    out = []
    _children_unordered(n, out)
    out.sort(key=lambda c: (c.get("sp") or [0, 0])[:2])
    return out


def walk(n, into_closures=True, into_items=False):
    """Pre-order walk of all nodes below (and including) n."""
    stack = [n]
    while stack:
        x = stack.pop()
        if not isinstance(x, dict):
            continue
        if "k" in x:
            yield x
            if x["k"] == "closure" and not into_closures and x is not n:
                continue
            if x["k"] == "item" and not into_items and x is not n:
                continue
        cs = list(children(x))
        stack.extend(reversed(cs))


def line_of(n):
    return n.get("sp", [0])[0]


# ----------------------------------------------------------------------------- item index

class Fn:
    def __init__(self, node, module, self_ty, trait, crate, file):
        self.node = node
        self.name = node["name"]
        self.module = module  # list of module names
        self.self_ty = self_ty
        self.trait = trait
        self.crate = crate
        self.file = file
        self.body = node.get("body")
        self.params = node.get("params", [])
        self.ret = node.get("ret")
        base = self_ty_base(self_ty) if self_ty else None
        parts = list(module) + ([base] if base else []) + [self.name]
        self.qual = "::".join(parts)
        self.base = base

    def __repr__(self):
        return "Fn(%s)" % self.qual

    def param_names(self):
        out = []
        for p in self.params:
            if p.get("self"):
                out.append("self")
            else:
                pat = p.get("pat", {})
                out.append(pat.get("name") if pat.get("k") == "p_ident" else None)
        return out

    def param_ty(self, name):
        for p in self.params:
            pat = p.get("pat", {})
            if pat.get("k") == "p_ident" and pat.get("name") == name:
                return p.get("ty")
        return None


def self_ty_base(t):
    if t is None:
        return None
    t = t.strip()
    t = re.sub(r"<.*$", "", t).strip()
    t = t.lstrip("&").strip()
    return t.split("::")[-1].strip()


CONST_LITS = {}   # name -> text of `const NAME: &str / char = <literal>` of the analysed crates (None: ambiguous)


CONST_LOADER = None   # set by the harness: loads every crate index once, so that the table is complete whichever pack asks first


def const_text(a):
    """literal text of an expression that names a text constant, else None"""
    global CONST_LOADER
    a = strip_ref(a)
    if CONST_LOADER is not None and a.get("k") == "path":
        ld, CONST_LOADER = CONST_LOADER, None
        ld()
    if a.get("k") == "path" and CONST_LITS.get(a["segs"][-1]) is not None and a["segs"][-1].isupper() or \
            (a.get("k") == "path" and CONST_LITS.get(a["segs"][-1]) is not None and a["segs"][-1].upper() == a["segs"][-1]):
        return CONST_LITS[a["segs"][-1]]
    return None


class Index:
    """All items of one lowered crate (expanded view) or of the original files."""

    def __init__(self, ir, crate, test_too=False):
        self.crate = crate
        self.fns = []
        self.enums = {}
        self.structs = {}
        self.consts = {}
        self.macros = []
        self.impls = []
        for f in ir["files"]:
            self._items(f["items"], [], f["path"], test_too, top=True)
        self.by_qual = {}
        for fn in self.fns:
            self.by_qual.setdefault(fn.qual, []).append(fn)
        # named text constants: `w.push(STAT_SEP)` writes the same text as `w.push(';')`
        for (_m, name), it in self.consts.items():
            e = it.get("e") or {}
            if e.get("k") == "lit" and e.get("t") in ("str", "char"):
                if name in CONST_LITS and CONST_LITS[name] != e["v"]:
                    CONST_LITS[name] = None
                else:
                    CONST_LITS[name] = e["v"]

    def _items(self, items, module, file, test_too, top=False):
        for it in items or []:
            k = it.get("k")
            if it.get("test") and not test_too:
                continue
            if k == "fn":
                self.fns.append(Fn(it, module, None, None, self.crate, file))
                self._nested_items(it.get("body"), module + [it["name"]], file, test_too)
            elif k == "impl":
                self.impls.append((module, it))
                for ii in it["items"]:
                    if ii.get("k") == "fn":
                        if ii.get("test") and not test_too:
                            continue
                        self.fns.append(Fn(ii, module, it["self_ty"], it.get("trait"), self.crate, file))
                        self._nested_items(ii.get("body"), module + [self_ty_base(it["self_ty"]), ii["name"]], file, test_too)
                    elif ii.get("k") == "const":
                        self.consts[("::".join(module + [self_ty_base(it["self_ty"])]), ii["name"])] = ii
            elif k == "mod":
                if it.get("items") is not None:
                    self._items(it["items"], module + [it["name"]], file, test_too)
            elif k == "enum":
                self.enums.setdefault(it["name"], []).append((module, it))
            elif k == "structdef":
                self.structs.setdefault(it["name"], []).append((module, it))
            elif k in ("const", "static"):
                self.consts[("::".join(module), it["name"])] = it
            elif k == "trait":
                for ii in it["items"]:
                    if ii.get("k") == "fn" and ii.get("body"):
                        self.fns.append(Fn(ii, module, it["name"], None, self.crate, file))
            elif k == "mac":
                self.macros.append((module, it))

    def _nested_items(self, body, module, file, test_too):
        # fns / enums declared inside function bodies
        if not body:
            return
        for n in walk(body, into_items=True):
            if n.get("k") == "item":
                it = n["item"]
                if it.get("k") in ("fn", "enum", "structdef", "impl", "const"):
                    self._items([it], module, file, test_too)

    def fn(self, qual):
        """Unique function by (suffix of) qualified name; None if absent or ambiguous."""
        c = self.find(qual)
        return c[0] if len(c) == 1 else None

    def find(self, qual):
        if qual in self.by_qual:
            return self.by_qual[qual]
        suf = "::" + qual
        out = []
        for q, fs in self.by_qual.items():
            if q.endswith(suf):
                out.extend(fs)
        return out

    def enum(self, name):
        e = self.enums.get(name)
        return e[0][1] if e and len(e) == 1 else None

    def struct(self, name, module=None):
        s = self.structs.get(name)
        if s and module is not None:
            s = [x for x in s if module in x[0]] or s
        return s[0][1] if s and len(s) == 1 else None

    def const(self, name):
        c = [v for (m, n), v in self.consts.items() if n == name]
        return c[0] if len(c) == 1 else None


# ----------------------------------------------------------------------------- expression helpers

def is_path(n, *names):
    return isinstance(n, dict) and n.get("k") == "path" and (not names or n["s"] in names or n["segs"][-1] in names)


def path_last(n):
    if isinstance(n, dict) and n.get("k") == "path":
        return n["segs"][-1]
    return None


def call_name(n):
    """Name of the callee of a call/mcall node: last path segment or method name."""
    if n.get("k") == "mcall":
        return n["m"]
    if n.get("k") == "call":
        f = n["f"]
        if f.get("k") == "path":
            return f["segs"][-1]
    return None


def call_path(n):
    if n.get("k") == "call" and n["f"].get("k") == "path":
        return n["f"]["s"]
    return None


def strip_ref(n):
    while isinstance(n, dict) and (n.get("k") == "ref" or (n.get("k") == "unary" and n.get("op") == "*")):
        n = n["e"]
    return n


def expr_str(n, depth=0):
    """Compact rendering of an expression node, for reports and keys."""
    if n is None:
        return ""
    if not isinstance(n, dict):
        return str(n)
    k = n.get("k")
    if depth > 6:
        return "..."
    d = depth + 1
    if k == "lit":
        if n.get("t") == "str":
            return json.dumps(n.get("v"))
        if n.get("t") == "char":
            return "'%s'" % n.get("v")
        return str(n.get("v"))
    if k == "path":
        return n["s"]
    if k == "field":
        return "%s.%s" % (expr_str(n["base"], d), n["name"])
    if k == "mcall":
        return "%s.%s(%s)" % (expr_str(n["recv"], d), n["m"], ",".join(expr_str(a, d) for a in n["args"]))
    if k == "call":
        return "%s(%s)" % (expr_str(n["f"], d), ",".join(expr_str(a, d) for a in n["args"]))
    if k == "ref":
        return "&" + ("mut " if n.get("mut") else "") + expr_str(n["e"], d)
    if k == "unary":
        return n["op"] + expr_str(n["e"], d)
    if k == "binary":
        return "%s%s%s" % (expr_str(n["l"], d), n["op"], expr_str(n["r"], d))
    if k == "index":
        return "%s[%s]" % (expr_str(n["base"], d), expr_str(n["idx"], d))
    if k == "try":
        return expr_str(n["e"], d) + "?"
    if k == "mac":
        return "%s!(%s)" % (n["name"], (n.get("raw") or "")[:60])
    if k == "cast":
        return "%s as %s" % (expr_str(n["e"], d), n["ty"])
    if k == "if":
        return "if %s {..}" % expr_str(n["cond"], d)
    if k == "match":
        return "match %s {..}" % expr_str(n["e"], d)
    if k == "closure":
        return "|..|{..}"
    if k == "block":
        return "{..}"
    if k == "tuple":
        return "(%s)" % ",".join(expr_str(a, d) for a in n["elems"])
    if k == "struct":
        return "%s{..}" % n["path"]
    if k == "range":
        return "%s..%s%s" % (expr_str(n.get("from"), d), "=" if n.get("incl") else "", expr_str(n.get("to"), d))
    if k == "let":
        return "let %s=%s" % (pat_str(n["pat"]), expr_str(n["e"], d))
    return k or "?"


def pat_str(p):
    if not isinstance(p, dict):
        return str(p)
    k = p.get("k")
    if k == "p_ident":
        return p["name"]
    if k == "p_wild":
        return "_"
    if k == "p_rest":
        return ".."
    if k in ("p_path",):
        return p["s"]
    if k == "p_ts":
        return "%s(%s)" % (p["s"], ",".join(pat_str(e) for e in p["elems"]))
    if k == "p_struct":
        return "%s{%s%s}" % (p["s"], ",".join(f["name"] for f in p["fields"]), ",.." if p.get("rest") else "")
    if k == "p_or":
        return "|".join(pat_str(c) for c in p["cases"])
    if k == "p_lit":
        return expr_str(p["e"])
    if k == "p_tuple":
        return "(%s)" % ",".join(pat_str(e) for e in p["elems"])
    if k == "p_ref":
        return "&" + pat_str(p["pat"])
    if k == "p_range":
        return "%s..=%s" % (expr_str(p.get("lo")), expr_str(p.get("hi")))
    if k == "p_slice":
        return "[%s]" % ",".join(pat_str(e) for e in p.get("elems", []))
    return k or "?"


def pat_variants(p):
    """Enum variant names (last path segment) a pattern names at its top level, through or-patterns/refs."""
    k = p.get("k")
    if k == "p_or":
        out = []
        for c in p["cases"]:
            out.extend(pat_variants(c))
        return out
    if k == "p_ref":
        return pat_variants(p["pat"])
    if k in ("p_struct", "p_ts", "p_path"):
        return [p["segs"][-1]]
    if k == "p_ident" and p.get("sub"):
        return pat_variants(p["sub"])
    return []


def pat_bindings(p):
    """All identifiers bound by a pattern -> list of (name, field_path) where field_path is the list of
    field names / tuple indices leading to it from the matched value (variant names prefixed with '@')."""
    out = []

    def rec(p, path):
        k = p.get("k")
        if k == "p_ident":
            # an ident pattern may also be a unit variant / const; callers filter by case
            out.append((p["name"], path))
            if p.get("sub"):
                rec(p["sub"], path)
        elif k == "p_struct":
            for f in p["fields"]:
                rec(f["pat"], path + ["@" + p["segs"][-1], f["name"]])
        elif k == "p_ts":
            for i, e in enumerate(p["elems"]):
                rec(e, path + ["@" + p["segs"][-1], str(i)])
        elif k == "p_tuple":
            for i, e in enumerate(p["elems"]):
                rec(e, path + [str(i)])
        elif k == "p_or":
            for c in p["cases"]:
                rec(c, path)
        elif k in ("p_ref", "p_type"):
            rec(p["pat"], path)
        elif k == "p_slice":
            for i, e in enumerate(p["elems"]):
                rec(e, path + ["[%d]" % i])

    rec(p, [])
    return out


# ----------------------------------------------------------------------------- format strings

def parse_format(s):
    """Rust format string -> list of ('lit', text) / ('hole', arg, spec). `{{`/`}}` are unescaped."""
    out = []
    lit = []
    i = 0
    n = len(s)
    while i < n:
        c = s[i]
        if c == "{":
            if i + 1 < n and s[i + 1] == "{":
                lit.append("{")
                i += 2
                continue
            j = s.index("}", i)
            inner = s[i + 1:j]
            arg, _, spec = inner.partition(":")
            if lit:
                out.append(("lit", "".join(lit)))
                lit = []
            out.append(("hole", arg.strip(), spec))
            i = j + 1
        elif c == "}":
            if i + 1 < n and s[i + 1] == "}":
                lit.append("}")
                i += 2
                continue
            lit.append("}")
            i += 1
        else:
            lit.append(c)
            i += 1
    if lit:
        out.append(("lit", "".join(lit)))
    return out


def format_args_of(n, resolve_consts=True):
    """If n is `format_args!(..)` (expanded view) or write!/format!-like macro (original view), return
    (pieces, arg_nodes) where pieces come from parse_format with holes resolved to argument nodes:
    list of ('lit', text) / ('hole', node, spec)."""
    if not (isinstance(n, dict) and n.get("k") == "mac"):
        return None
    name = n["name"]
    args = n.get("args")
    if args is None:
        return None
    if name in ("format_args", "format", "print", "println", "eprintln", "panic", "format_args_nl"):
        fi = 0
    elif name in ("write", "writeln"):
        fi = 1
    else:
        return None
    if len(args) <= fi or args[fi].get("k") != "lit" or args[fi].get("t") != "str":
        return None
    fmt = args[fi]["v"]
    rest = args[fi + 1:]
    pos = []
    named = {}
    for a in rest:
        if a.get("k") == "assign" and a["l"].get("k") == "path" and len(a["l"]["segs"]) == 1:
            named[a["l"]["s"]] = a["r"]
        else:
            pos.append(a)
    pieces = []
    auto = 0
    for p in parse_format(fmt):
        if p[0] == "lit":
            pieces.append(p)
        else:
            arg = p[1]
            if arg == "":
                node = pos[auto] if auto < len(pos) else None
                auto += 1
            elif arg.isdigit():
                node = pos[int(arg)] if int(arg) < len(pos) else None
            else:
                node = named.get(arg) or {"k": "path", "s": arg, "segs": [arg], "sp": n["sp"]}
            if resolve_consts and node is not None and p[2] in ("", None) and const_text(node) is not None:
                pieces.append(("lit", const_text(node)))
            else:
                pieces.append(("hole", node, p[2]))
    # merge adjacent literal pieces
    merged = []
    for pc in pieces:
        if pc[0] == "lit" and merged and merged[-1][0] == "lit":
            merged[-1] = ("lit", merged[-1][1] + pc[1])
        else:
            merged.append(pc)
    return merged, rest


def write_fmt_call(n):
    """Recognise `<target>.write_fmt(format_args!(..))` (the expansion of write!). Returns
    (target_node, pieces) or None."""
    if isinstance(n, dict) and n.get("k") == "mcall" and n["m"] == "write_fmt" and len(n["args"]) == 1:
        fa = format_args_of(n["args"][0])
        if fa:
            return n["recv"], fa[0]
    if isinstance(n, dict) and n.get("k") == "mac" and n["name"] in ("write", "writeln") and n.get("args"):
        fa = format_args_of(n)
        if fa:
            return n["args"][0], fa[0]
    # the same text written without the macro: `w.write_str(x)`, `s.push_str(x)`, `s.push('c')`, `w.write_char('c')`
    if isinstance(n, dict) and n.get("k") == "mcall" and len(n.get("args", [])) == 1:
        a = strip_ref(n["args"][0])
        if n["m"] in ("write_str", "push_str", "write_char", "push") and const_text(a) is not None:
            return n["recv"], [("lit", const_text(a))]
        if n["m"] in ("write_str", "push_str"):
            if a.get("k") == "lit" and a.get("t") == "str":
                return n["recv"], [("lit", a["v"])]
            if n["m"] == "push_str" or a.get("k") in ("path", "field", "mcall", "call", "index", "unary", "ref"):
                return n["recv"], [("hole", a, "")]
        if n["m"] in ("write_char", "push") and a.get("k") == "lit" and a.get("t") == "char":
            return n["recv"], [("lit", a["v"])]
    return None


def format_call(n):
    """Recognise the expansion of format!(..): `::alloc::__export::must_use({ ::alloc::fmt::format(format_args!(..)) })`
    or the plain macro. Returns pieces or None."""
    if not isinstance(n, dict):
        return None
    if n.get("k") == "mac" and n["name"] == "format":
        fa = format_args_of(n)
        return fa[0] if fa else None
    if n.get("k") == "call" and call_path(n) and call_path(n).endswith("must_use") and len(n["args"]) == 1:
        inner = n["args"][0]
        if inner.get("k") == "block" and len(inner["stmts"]) == 1 and inner["stmts"][0].get("k") == "expr":
            inner = inner["stmts"][0]["e"]
        return format_call(inner)
    if n.get("k") == "call" and call_path(n) and call_path(n).endswith("fmt::format") and len(n["args"]) == 1:
        fa = format_args_of(n["args"][0])
        return fa[0] if fa else None
    return None


# ----------------------------------------------------------------------------- MIR facts

def norm_mir_name(s):
    """`parse::ParseState::<'s>::skip_bytes` -> `parse::ParseState::skip_bytes`."""
    prev = None
    while prev != s:
        prev = s
        s = re.sub(r"::<[^<>]*>", "", s)
    return s


class Mir:
    def __init__(self, mirdir):
        self.bodies = []
        self.by_crate = {}
        for f in sorted(glob.glob(os.path.join(mirdir, "*.jsonl"))):
            crate = os.path.basename(f).split(".")[0]
            rows = []
            with open(f) as fh:
                for l in fh:
                    l = l.strip()
                    if l:
                        r = json.loads(l)
                        r["crate"] = crate
                        r["nfn"] = norm_mir_name(r["fn"])
                        r["root"] = norm_mir_name(r["parent"]) if r["parent"] else r["nfn"]
                        rows.append(r)
            self.by_crate[crate] = rows
            self.bodies.extend(rows)
        self.by_name = {}
        for b in self.bodies:
            self.by_name.setdefault((b["crate"], b["nfn"]), []).append(b)

    def fn_span(self, crate, qual, base=None, name=None):
        """file:line of a function given (suffix of) its qualified name; trait impl methods are matched
        through `<path::Type as Trait>::name`."""
        hits = [b for b in self.bodies if b["crate"] == crate and b["kind"] != "Closure" and (b["nfn"] == qual or b["nfn"].endswith("::" + qual))]
        if not hits and base and name:
            rx2 = re.compile(r"^(?:[\w:]*::)?<impl (?:[\w:]*::)?%s(?:<.*>)?>::%s$" % (re.escape(base), re.escape(name)))
            hits = [b for b in self.bodies if b["crate"] == crate and b["kind"] != "Closure" and rx2.match(b["fn"])]
            if len(hits) > 1:
                mod = qual.rsplit("::", 2)[0]
                hits = [b for b in hits if b["fn"].startswith(mod + "::")] or hits
        if not hits and base and name:
            rx = re.compile(r"^<(?:&|&mut )?(?:[\w:]*::)?%s(?:<.*>)? as .*>::%s$" % (re.escape(base), re.escape(name)))
            hits = [b for b in self.bodies if b["crate"] == crate and b["kind"] != "Closure" and rx.match(b["fn"])]
            if len(hits) > 1:
                mod = qual.rsplit("::", 2)[0]
                # prefer the impl whose span is in the module's file
                pref = [b for b in hits if mod.replace("::", "/") in b["span"]]
                hits = pref or hits
        if len(hits) >= 1:
            return hits[0]["span"].rsplit(":", 1)[0]
        return None

    def bodies_of_root(self, crate, root):
        return [b for b in self.bodies if b["crate"] == crate and (b["root"] == root or b["root"].endswith("::" + root))]


# ----------------------------------------------------------------------------- span join (MIR site -> syntax node)

class SpanIndex:
    """Find syntax nodes of the *original* files by the file:line:col MIR reports for a site."""

    def __init__(self, ir):
        self.files = {}
        for f in ir["files"]:
            self.files[os.path.abspath(f["path"])] = f

    def _fns(self, file):
        out = []

        def rec(items, test):
            for it in items or []:
                k = it.get("k")
                t = test or bool(it.get("test"))
                if k == "fn":
                    out.append((it, t))
                elif k == "impl":
                    for ii in it["items"]:
                        if ii.get("k") == "fn":
                            out.append((ii, t or bool(ii.get("test"))))
                elif k == "mod":
                    rec(it.get("items"), t)
                elif k == "trait":
                    for ii in it["items"]:
                        if ii.get("k") == "fn":
                            out.append((ii, t))
        rec(self.files[file]["items"], False)
        return out

    def enclosing_fn(self, file, line):
        file = os.path.abspath(file)
        if file not in self.files:
            return None
        best = None
        for fn, _t in self._fns(file):
            sp = fn["sp"]
            if sp[0] <= line <= sp[2]:
                if best is None or sp[0] >= best["sp"][0]:
                    best = fn
        return best

    def nodes_at(self, file, line, col, pred=None):
        """All nodes starting exactly at line:col (col 0-based) inside the enclosing fn, outermost first."""
        fn = self.enclosing_fn(file, line)
        if fn is None:
            return []
        out = []
        for n in walk(fn, into_items=True):
            sp = n.get("sp")
            if sp and sp[0] == line and sp[1] == col and (pred is None or pred(n)):
                out.append(n)
        return out


def parent_map(root):
    """node id -> parent node, for all nodes below root."""
    pm = {}
    stack = [root]
    while stack:
        x = stack.pop()
        for c in children(x):
            pm[id(c)] = x
            stack.append(c)
    return pm


def split_span(s):
    """'/path/file.rs:12:8' -> (file, 12, 8)"""
    f, l, c = s.rsplit(":", 2)
    return f, int(l), int(c)


def is_panic_node(n):
    """explicit panic in either view: panic!/unreachable!/todo!/unimplemented!/assert! macros or their expansions."""
    if n.get("k") == "mac" and n["name"] in ("panic", "unreachable", "todo", "unimplemented", "assert", "assert_eq", "assert_ne"):
        return n["name"]
    if n.get("k") == "call":
        p = call_path(n) or ""
        if "panicking" in p or p.endswith("begin_panic") or "rt::panic" in p:
            if "unreachable" in p or "internal error: entered unreachable code" in expr_str(n):
                return "unreachable"
            if "not yet implemented" in expr_str(n) or "not implemented" in expr_str(n):
                return "todo"
            return "panic"
    return None


def root_expr_name(e):
    """name of the variable an access path is rooted at: `&mut slot.1` -> slot, `attr.value.as_mut()` -> attr"""
    e = strip_ref(e)
    while isinstance(e, dict) and e.get("k") in ("mcall", "field", "index", "try", "unary", "ref"):
        e = e.get("recv") or e.get("base") or e.get("e")
        e = strip_ref(e) if isinstance(e, dict) else e
    if isinstance(e, dict) and e.get("k") == "path" and len(e["segs"]) == 1:
        return e["s"]
    return None


# ----------------------------------------------------------------------------- reachability (helper extraction is not a change of behaviour)

def callees_of(index, f, max_candidates=3):
    """functions of the same crate that `f` calls, resolved by name (free fns, `Self::f`, `Type::f`, methods)."""
    if not hasattr(index, "_byname"):
        index._byname = {}
        for g in index.fns:
            index._byname.setdefault(g.name, []).append(g)
    out = []
    seen = set()
    if not f.body:
        return out
    for n in walk(f.body):
        nm = None
        if n.get("k") == "call":
            cp = call_path(n)
            if cp:
                nm = cp.split("::")[-1]
        elif n.get("k") == "mcall":
            nm = n["m"]
        if not nm or nm == f.name:
            continue
        cands = [g for g in index._byname.get(nm, []) if g.body and g is not f]
        if not cands or len(cands) > max_candidates:
            continue
        for g in cands:
            if id(g) not in seen:
                seen.add(id(g))
                out.append(g)
    return out


def reach(index, f, depth=2):
    """f plus the private helpers it (transitively, up to `depth`) calls in its own crate; each function once."""
    out = [f]
    seen = {id(f)}
    frontier = [f]
    for _ in range(depth):
        nxt = []
        for g in frontier:
            for h in callees_of(index, g):
                if id(h) not in seen:
                    seen.add(id(h))
                    out.append(h)
                    nxt.append(h)
        frontier = nxt
    return out


def walk_reach(index, f, depth=2, into_items=False):
    """nodes of f and of the helpers it reaches (see reach)."""
    for g in reach(index, f, depth):
        root = g.node if into_items else g.body
        for n in walk(root, into_items=into_items):
            yield n


def emptiness_test(cond):
    """(subject text, polarity) if `cond` tests whether a collection is (non-)empty: polarity True = cond holds iff NON-empty.
    Recognises len() comparisons with 0/1, is_empty(), negations and `let Some(..) = x.first()`-free forms only."""
    c = cond
    neg = False
    while c.get("k") in ("unary", "paren"):
        if c.get("k") == "unary":
            if c.get("op") != "!":
                return None
            neg = not neg
        c = c["e"]
    if c.get("k") == "mcall" and c["m"] == "is_empty" and not c["args"]:
        return expr_str(strip_ref(c["recv"])).replace(" ", ""), neg  # is_empty(): true iff empty -> polarity False, flipped by neg
    if c.get("k") == "binary" and c.get("op") in (">", "!=", ">=", "==", "<", "<="):
        l, r, op = c["l"], c["r"], c["op"]
        if r.get("k") == "mcall" and r["m"] == "len":
            l, r = r, l
            op = {">": "<", "<": ">", ">=": "<=", "<=": ">="}.get(op, op)
        if l.get("k") == "mcall" and l["m"] == "len" and not l["args"] and r.get("k") == "lit" and str(r.get("v")) in ("0", "1"):
            v = str(r["v"])
            pol = {(">", "0"): True, ("!=", "0"): True, (">=", "1"): True, ("==", "0"): False, ("<", "1"): False, ("<=", "0"): False}.get((op, v))
            if pol is None:
                return None
            return expr_str(strip_ref(l["recv"])).replace(" ", ""), (pol != neg)
    return None
