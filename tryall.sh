#!/bin/sh
# tryall.sh <patch> : apply a patch to /repo, run every check, print the violations, undo it (refactoring triage).
P="$1"
cd /repo && git apply "$P" || { echo "patch does not apply"; exit 3; }
cd /verif
export VERIF_EVIDENCE_DIR=/verif/.build/scratch-evidence
for i in 01 02 03 04 05 06 07 08 09 10 11 12 13 14 15 16 17 18 19 20; do
  ./check C$i 2>&1 | grep -E "^VIOLATION|NOT-ANALYSABLE" | sed -E 's#.*replay=/verif/out/##'
done
cd /repo && git checkout -- . && git status --short | head -3
